"""C13: sketch-and-project, hybrid and CGNE solvers never flag a wrong inverse converged."""
import os, sys, math, io, contextlib, warnings
from fractions import Fraction
from . import common as cm
from . import qexact as qx
from .qexact import Q

HEADER = """From Coq Require Import ZArith QArith Qabs Qcanon List Bool Arith. Import ListNotations.
From QV Require Import CRing Sums Quat Mat.
From QVM Require Import CGNE LUexec.
Definition qq (a b c d : Q) : quat QcR := @mkQ QcR (Q2Qc a) (Q2Qc b) (Q2Qc c) (Q2Qc d).
Definition closeQ (x y : Q) : bool := Qle_bool (Qabs (x - y)) ((1 # 10000000) * Qabs y + (1 # 1000000000000000000000000)).
Definition closeq (a b : quat QcR) : bool :=
  let t x y := Qle_bool (Qabs (this x - this y)) ((1 # 100000000) * (1 + Qabs (this y))) in
  t (qw a) (qw b) && t (qx a) (qx b) && t (qy a) (qy b) && t (qz a) (qz b).
Definition close_mat (r c : nat) (M : qmat QcR) (L : list (list (quat QcR))) : bool :=
  forallb (fun i => forallb (fun j => closeq (nth j (nth i L []) q0Q) (M i j)) (seq 0 c)) (seq 0 r).
Definition divQ (a b : Qc) : Qc := (a / b)%Qc.
Definition smallQ40 (x : Qc) : bool := if Qclt_le_dec (Q2Qc (1 # 10000000000000000000000000000000000000000)) x then false else true.
Fixpoint list_ok (model : list Qc) (impl : list Q) : bool :=
  match model, impl with [], [] => true | x :: m', y :: i' => closeQ y (this x) && list_ok m' i' | _, _ => false end.
(* (m, n, K, A, implementation ||R_k||_F^2 history, implementation X) *)
Definition check_cgne (c : nat * nat * nat * list (list (quat QcR)) * list Q * list (list (quat QcR))) : bool :=
  let '(m, n, k, A, h, X) := c in
  let Am := qof_listQ A in
  let f := frob2 m n Am in
  let '(sf, hf) := cg_run QcR retabQ divQ smallQ40 m n Am (fun _ => false) k (cg_init QcR retabQ m n (1 / f)%Qc Am) [] in
  list_ok hf h && close_mat n m (cgX QcR sf) X.
"""
def ql(q): return '(qq ' + ' '.join((f'({Fraction(c).numerator} # {Fraction(c).denominator})' if Fraction(c).numerator >= 0 else f'(({Fraction(c).numerator}) # {Fraction(c).denominator})') for c in q.t()) + ')'
def qmat_lit(A): return '[' + '; '.join('[' + '; '.join(ql(a) for a in r) + ']' for r in A) + ']'
def Ql(x):
    x = Fraction(x); return f'({x.numerator} # {x.denominator})' if x >= 0 else f'(({x.numerator}) # {x.denominator})'

def run(ctx):
    cm.setup_impl_path()
    for b in cm.audit(cm.coq_sources() + [os.path.join(cm.ROOT, 'props', 'C13.v')]): ctx.broken.append('audit: ' + b)
    cm.prove(ctx, 'C13.v')
    try:
        import numpy as np, quaternion, utils, solver, importlib
    except Exception as e:
        ctx.broken.append(f'implementation does not import: {e!r}'); return cm.finish(ctx, 'proof', '', ASSUME)
    warnings.simplefilter('ignore')
    def viol(sig, what, inp, obs='', exp=''):
        ctx.violations.append({'sig': sig, 'what': what, 'input': inp, 'observed': str(obs)[:300], 'expected': str(exp)[:300], 'oracle': 'true residual ||X A - I||_F / sqrt(n) and exact pseudoinverse (float64 linear algebra on the real embedding)'})
    rng = ctx.rng; rs = np.random.RandomState(7 + ctx.seed)
    def fro(M): return utils.quat_frobenius_norm(M)
    def true_res(X, A, n): return fro(utils.quat_matmat(X, A) - utils.quat_eye(n)) / math.sqrt(n)
    def pinv(A):
        m, n = A.shape; R = utils.real_expand(A); return utils.real_contract(np.linalg.pinv(R), n, m)
    def wellcond(m, n, cond):
        """m x n (m >= n) with singular values from 1 to 1/cond, exactly representable-ish"""
        from .c03 import spectral_problem
        sv = [Fraction(1)] + [Fraction(1, 1) / (1 + (cond - 1) * Fraction(i, max(1, n - 1))) for i in range(1, n)]
        A, _, _ = spectral_problem(rng, m, n, sv); return qx.to_np(A), A
    shapes = [(2, 2), (3, 2), (4, 3), (3, 3), (5, 2), (1, 1)] + ([] if ctx.quick() else [(6, 4), (5, 5), (4, 1)])
    cterms = []
    # ---- CGNE, long runs (50 .. 300 iterations): whatever happens periodically inside the loop, the last reported residual is the
    # residual of the returned X, the history does not increase, the flag is sound and the budget suffices
    qsvd_full = importlib.import_module('decomp.qsvd').classical_qsvd_full
    for (m, n, cond) in ([(48, 36, 30), (40, 40, 60)] if ctx.quick() else [(48, 36, 30), (40, 40, 60), (60, 40, 100), (64, 48, 300), (37, 35, 1000)]):
        Gq = quaternion.as_quat_array(rs.standard_normal((m, n, 4)))
        Uq, _, Vq = qsvd_full(Gq)
        sv = np.geomspace(1.0, 1.0 / cond, n)
        Al = utils.quat_matmat(Uq[:, :n] * sv, utils.quat_hermitian(Vq))
        for tol in (1e-6,) if ctx.quick() else (1e-4, 1e-6, 1e-8):
            inp = {'class': 'long-run', 'shape': [m, n], 'cond': cond, 'tol': tol, 'generator': f'RandomState({7 + ctx.seed}) Gaussian, singular values geomspace(1, 1/cond)'}
            try: Xl, il = solver.CGNEQSolver(tol=tol, max_iter=2000).compute(Al)
            except Exception as e: viol('C13:cgne:raises:long-run', f'CGNE raised {e!r}', inp); continue
            hl = [float(v) for v in il['residual_norms']]; trl = true_res(Xl, Al, n)
            if not cm.all_finite(Xl, hl): viol('C13:cgne:nonfinite:long-run', 'CGNE returned NaN / inf', inp); continue
            if hl and abs(hl[-1] - trl) > 1e-3 * trl + 1e-11: viol('C13:cgne:history:long-run', f'last CGNE residual {hl[-1]:.3e} is not the residual {trl:.3e} of the returned X after {len(hl)} iterations', inp, hl[-1], trl)
            if any(hl[i + 1] > hl[i] * (1 + 1e-7) + 1e-13 for i in range(len(hl) - 1)): viol('C13:cgne:monotone:long-run', 'CGNE residuals increase', inp)
            if il['converged'] and trl > tol * (1 + 1e-3) + 1e-11: viol('C13:cgne:flag:long-run', f'CGNE reports converged with true residual {trl:.3e} > tol {tol}', inp, trl, tol)
            if not il['converged']: viol('C13:cgne:budget:long-run', f'CGNE does not reach tol {tol} on a {m}x{n} matrix of condition {cond} within 2000 iterations (true residual {trl:.3e})', inp, trl)
            ctx.count(('cgne-long', m, n, cond, tol, len(hl)), True)
    # ---- CGNE: exact trajectory correspondence + soundness of the flag ------------------------------------
    for (m, n) in shapes:
        for cond in ([3] if ctx.quick() else [2, 10, 100]):
            An, A = wellcond(m, n, cond)
            inp = {'shape': [m, n], 'cond': cond, 'A': [[[str(c) for c in a.t()] for a in r] for r in A]}
            K = max(1, min(3, n - 1))     # fewer steps than distinct singular values: exact CG has not terminated yet, so the float run is comparable
            X, info = solver.CGNEQSolver(tol=0.0, max_iter=K).compute(An)
            hist = [float(v) for v in info['residual_norms']]
            if not cm.all_finite(X, hist): viol('C13:cgne:nonfinite', 'CGNE returned NaN / inf', inp)
            if any(hist[i + 1] > hist[i] * (1 + 1e-9) + 1e-14 for i in range(len(hist) - 1)): viol('C13:cgne:monotone', 'CGNE residuals increase', inp, hist)
            if hist and abs(hist[-1] - true_res(X, An, n)) > 1e-9 * max(1, hist[-1]) + 1e-13: viol('C13:cgne:history', 'last CGNE residual is not the residual of the returned X', inp, hist[-1], true_res(X, An, n))
            for tol in ((1e-6,) if ctx.quick() else (1e-3, 1e-6, 1e-8)):
                Xc, ic = solver.CGNEQSolver(tol=tol, max_iter=500).compute(An)
                tr = true_res(Xc, An, n)
                if ic['converged'] and tr > tol * (1 + 1e-6) + 1e-14: viol('C13:cgne:flag', f'CGNE reports converged with true residual {tr:.3e} > tol {tol}', inp, tr, tol)
                if tr > tol * (1 + 1e-6) + 1e-14: viol('C13:cgne:budget', f'CGNE does not return the pseudoinverse to tol {tol} on a matrix of condition {cond} within 500 iterations (true residual {tr:.3e})', inp, ic['residual_norms'][-3:])
                if ic['converged'] and fro(Xc - pinv(An)) > 10 * cond * cond * tol * math.sqrt(n) + 1e-10: viol('C13:cgne:pinv', 'converged CGNE result is not the pseudoinverse to cond-scaled accuracy', inp, fro(Xc - pinv(An)))
                if ic['iterations'] != len(ic['residual_norms']): viol('C13:cgne:info', 'iterations != len(residual_norms)', inp)
            # the flag must be sound for every budget (0 included) and every scale of the data (the breakdown guard is absolute)
            for sname, scl in (('1', 1.0), ('2^-40', 2.0 ** -40), ('2^-60', 2.0 ** -60), ('2^27', 2.0 ** 27)):
                for mi in (0, 1, 500):
                    if scl == 1.0 and mi == 500: continue
                    try: Xs, isx = solver.CGNEQSolver(tol=1e-6, max_iter=mi).compute(An * scl)
                    except Exception as e: viol('C13:cgne:raises:scaled', f'CGNE raised {e!r} on a matrix scaled by {sname}', inp); continue
                    trs = true_res(Xs, An * scl, n)
                    if isx['converged'] and not trs <= 1e-6 * (1 + 1e-6) + 1e-14: viol('C13:cgne:flag:scaled-or-zero-budget', f'CGNE reports converged with true residual {trs:.3e} > tol 1e-6 (scale {sname}, max_iter {mi})', dict(inp, scale=sname, max_iter=mi), trs, 1e-6)
                    ctx.count(('cgne-flag', m, n, cond, sname, mi), True)
            ctx.count(('cgne', m, n, cond, [a.t() for row in A for a in row]), K >= 2, sample={'shape': [m, n], 'cond': cond, 'K': K} if (m, n) == (3, 2) else None)
            if len(hist) == K and n >= 2:
                h = '[' + '; '.join(Ql((Fraction(v) ** 2) * n) for v in hist) + ']'
                cterms.append(f'({m}%nat, {n}%nat, {K}%nat, {qmat_lit(A)}, {h}, {qmat_lit(qx.from_np(X))})')
    # ---- randomized solvers: flag soundness with the recorded test sketch, history of the returned iterate ----
    draws = []
    orig_randn = np.random.randn
    def rec_randn(*a):
        v = orig_randn(*a); draws.append(v.copy()); return v
    def sketch_from(draws4): return quaternion.as_quat_array(np.stack(draws4, axis=-1))
    seeds = range(3) if ctx.quick() else range(12)
    for (m, n) in [s for s in shapes if s[0] >= s[1]]:
        An, A = wellcond(m, n, 5)
        for seed in seeds:
            for cs in ('qr', 'spd'):
                for bs in sorted({1, n, min(2, n)}):
                    inp = {'solver': 'RSP column', 'shape': [m, n], 'seed': seed, 'block_size': bs, 'column_solver': cs}
                    s = solver.RandomizedSketchProjectPseudoinverse(block_size=bs, max_iter=400, tol=1e-6, seed=seed, column_solver=cs, test_sketch_size=8)
                    draws.clear(); np.random.randn = rec_randn
                    try: X, info = s.compute_column_variant(An)
                    except Exception as e: viol('C13:rsp:raises', f'RSP raised {e!r}', inp); continue
                    finally: np.random.randn = orig_randn
                    Pi = sketch_from(draws[:4])
                    if not cm.all_finite(X, info['residual_norms']): viol('C13:rsp:nonfinite', 'RSP returned NaN / inf', inp); continue
                    if info['residual_norms']:
                        last = fro(Pi - utils.quat_matmat(X, utils.quat_matmat(An, Pi))) / fro(Pi)
                        if abs(last - info['residual_norms'][-1]) > 1e-9 * max(1, last): viol('C13:rsp:history', 'last RSP residual is not the residual of the returned X', inp, info['residual_norms'][-1], last)
                    tr = true_res(X, An, n)
                    if info['converged']:
                        # n <= 8 = number of test columns: Pi has a right inverse, ||I - XA||_F <= proxy ||Pi||_F ||Pi^+||_2
                        Pr = utils.real_expand(Pi); bound = info['residual_norms'][-1] * fro(Pi) * np.linalg.norm(np.linalg.pinv(Pr), 2) / math.sqrt(n)
                        if tr > bound * (1 + 1e-6) + 1e-12: viol('C13:rsp:flag', f'RSP converged flag with true residual {tr:.3e} above the sketch bound {bound:.3e}', inp, tr, bound)
                        if tr > 100 * 1e-6: viol('C13:rsp:flag-multiple', f'RSP reports converged with true residual {tr:.3e} > 100 tol', inp, tr)
                        if fro(X - pinv(An)) > 1e-3 * fro(pinv(An)): viol('C13:rsp:pinv', 'converged RSP result is far from the pseudoinverse', inp, fro(X - pinv(An)))
                    if info['iterations'] != len(info['residual_norms']): viol('C13:rsp:info', 'iterations != len(residual_norms)', inp)
                    ctx.count(('rsp', m, n, seed, cs, bs), True)
                    # the same configuration through the public dispatching entry point compute(): whatever it reports must describe the X it returns
                    s2 = solver.RandomizedSketchProjectPseudoinverse(block_size=bs, max_iter=400, tol=1e-6, seed=seed, column_solver=cs, test_sketch_size=8)
                    try: X2, info2 = s2.compute(An)
                    except Exception as e: viol('C13:rsp:compute:raises', f'RSP compute() raised {e!r}', inp); continue
                    if not cm.all_finite(X2, info2['residual_norms']): viol('C13:rsp:compute:nonfinite', 'RSP compute() returned NaN / inf', inp); continue
                    tr2 = true_res(X2, An, n)
                    if info2['converged']:
                        if tr2 > 100 * 1e-6: viol('C13:rsp:compute:flag-multiple', f'compute() reports converged with true residual {tr2:.3e} > 100 tol (column_solver={cs}, block_size={bs})', inp, tr2)
                        if fro(X2 - pinv(An)) > 1e-3 * fro(pinv(An)): viol('C13:rsp:compute:pinv', 'converged compute() result is far from the pseudoinverse', inp, fro(X2 - pinv(An)))
                    if info2['iterations'] != len(info2['residual_norms']): viol('C13:rsp:compute:info', 'iterations != len(residual_norms)', inp)
                    if (s2.block_size, s2.column_solver) != (bs, cs): viol('C13:rsp:compute:configuration', 'compute() changed the configuration of the solver object', inp, (s2.block_size, s2.column_solver))
                    ctx.count(('rsp-compute', m, n, seed, cs, bs), True)
        # the deterministic core of the decrease (thm/RSPmono.v): with the QR micro-solver the distance to the pseudoinverse never increases from one
        # iteration budget to the next, for every seed (same seed = same sketches: the run with budget k + 1 extends the run with budget k)
        if m > n or True:
            Pn = pinv(An)
            for seed in list(seeds)[:2]:
                for bs in sorted({1, min(2, n)}):
                    errs = []
                    for kb in range(0, 7):
                        try: Xk, _ik = solver.RandomizedSketchProjectPseudoinverse(block_size=bs, max_iter=kb, tol=1e-300, seed=seed, column_solver='qr', test_sketch_size=8).compute_column_variant(An)
                        except Exception as e: viol('C13:rsp:monotone:raises', f'RSP raised {e!r} for budget {kb}', {'shape': [m, n], 'seed': seed, 'block_size': bs}); break
                        errs.append(fro(Xk - Pn))
                    if any(errs[i + 1] > errs[i] * (1 + 1e-9) + 1e-12 for i in range(len(errs) - 1)):
                        viol('C13:rsp:error-monotone', 'the distance to the pseudoinverse increases from one projection step to the next (QR micro-solver)', {'shape': [m, n], 'seed': seed, 'block_size': bs}, errs)
                    ctx.count(('rsp-monotone', m, n, seed, bs), len(errs) >= 3)
        # monitoring sketch of the same width as the iteration block (and narrower than n): the test sketch must stay independent of the iterates
        for seed in seeds:
            for cs in ('qr', 'spd'):
                for bs in range(1, n):
                    for tss in sorted({bs, max(1, bs - 1)}):
                        inp = {'solver': 'RSP column', 'shape': [m, n], 'seed': seed, 'block_size': bs, 'column_solver': cs, 'test_sketch_size': tss}
                        try: X, info = solver.RandomizedSketchProjectPseudoinverse(block_size=bs, max_iter=400, tol=1e-6, seed=seed, column_solver=cs, test_sketch_size=tss).compute_column_variant(An)
                        except Exception as e: viol('C13:rsp:raises', f'RSP raised {e!r}', inp); continue
                        tr = true_res(X, An, n)
                        if info['converged'] and not tr <= 1e3 * 1e-6: viol('C13:rsp:flag:narrow-test-sketch', f'RSP reports converged after {info["iterations"]} iteration(s) with true residual {tr:.3e} (tol 1e-6)', inp, tr, 1e-6)
                        ctx.count(('rsp-narrow', m, n, seed, cs, bs, tss), True)
        # hybrid
        for seed in seeds:
            for p in ((2, 3) if ctx.quick() else (2, 3, 5, 8)):
                inp = {'solver': 'hybrid', 'shape': [m, n], 'seed': seed, 'order': p}
                h = solver.HybridRSPNewtonSchulz(r=min(2, n), p=p, T=3, tol=1e-6, max_iter=200, seed=seed)
                draws.clear(); np.random.randn = rec_randn
                try: X, info = h.compute(An)
                except Exception as e: viol('C13:hybrid:raises', f'hybrid raised {e!r}', inp); continue
                finally: np.random.randn = orig_randn
                Pi = sketch_from(draws[:4])
                if info['residual_norms']:
                    last = fro(Pi - utils.quat_matmat(X, utils.quat_matmat(An, Pi))) / fro(Pi)
                    if abs(last - info['residual_norms'][-1]) > 1e-9 * max(1, last): viol('C13:hybrid:history', 'last hybrid proxy is not the proxy of the returned X', inp, info['residual_norms'][-1], last)
                tr = true_res(X, An, n)
                if info['converged']:
                    Pr = utils.real_expand(Pi); bound = info['residual_norms'][-1] * fro(Pi) * np.linalg.norm(np.linalg.pinv(Pr), 2) / math.sqrt(n)
                    if tr > bound * (1 + 1e-6) + 1e-12: viol('C13:hybrid:flag', f'hybrid converged flag with true residual {tr:.3e} above the sketch bound {bound:.3e}', inp, tr, bound)
                    if tr > 100 * 1e-6: viol('C13:hybrid:flag-multiple', f'hybrid reports converged with true residual {tr:.3e} > 100 tol', inp, tr)
                    # a left inverse is not enough: X must be THE pseudoinverse (it has to stay in the row space of A^H), to cond-scaled accuracy
                    if fro(X - pinv(An)) > 1e-3 * fro(pinv(An)): viol('C13:hybrid:pinv', f'converged hybrid result is a left inverse but not the pseudoinverse (relative distance {fro(X - pinv(An)) / fro(pinv(An)):.2e})', inp, fro(X - pinv(An)))
                # hyper-power identity on the implementation: I - X'A = (I - XA)^p
                X0 = utils.quat_hermitian(An) * (1.0 / fro(An) ** 2)
                X1 = h._ns_hyperpower_right(An, X0)
                F = utils.quat_eye(n) - utils.quat_matmat(X0, An); Fp = utils.quat_eye(n)
                for _ in range(p): Fp = utils.quat_matmat(Fp, F)
                if fro(utils.quat_eye(n) - utils.quat_matmat(X1, An) - Fp) > 1e-12 * (1 + fro(Fp)): viol('C13:hyperpower', f'I - X\'A != (I - XA)^{p}', inp)
                ctx.count(('hybrid', m, n, seed, p), True)
    # row variant
    for (m, n) in [(2, 3), (1, 3), (2, 2)] + ([] if ctx.quick() else [(3, 5), (2, 6)]):
        Atn, At = wellcond(n, m, 4); An = utils.quat_hermitian(Atn)
        for seed in seeds:
            inp = {'solver': 'RSP row', 'shape': [m, n], 'seed': seed}
            s = solver.RandomizedSketchProjectPseudoinverse(block_size=min(2, m), max_iter=400, tol=1e-6, seed=seed)
            draws.clear(); np.random.randn = rec_randn
            try: X, info = s.compute_row_variant(An)
            except Exception as e: viol('C13:rsp-row:raises', f'RSP row variant raised {e!r}', inp); continue
            finally: np.random.randn = orig_randn
            Th = sketch_from(draws[:4])
            tr = fro(utils.quat_matmat(An, X) - utils.quat_eye(m)) / math.sqrt(m)
            if info['residual_norms']:
                last = fro(Th - utils.quat_matmat(An, utils.quat_matmat(X, Th))) / fro(Th)
                if abs(last - info['residual_norms'][-1]) > 1e-9 * max(1, last): viol('C13:rsp-row:history', 'last row-variant proxy is not the proxy of the returned X', inp)
            if info['converged'] and tr > 100 * 1e-6: viol('C13:rsp-row:flag-multiple', f'row variant reports converged with ||AX - I||/sqrt(m) = {tr:.3e} > 100 tol', inp, tr)
            ctx.count(('rsp-row', m, n, seed), True)
    # wide input through compute() with FEWER test columns than rows: the monitor must still see every column of A X - I (a Gaussian probe does, a
    # coordinate probe does not).  Block matrices diag(A1, A2) whose slowly converging part (two nearly parallel rows) sits in the LAST rows
    for (m1, n1) in ((3, 6), (4, 8)) if ctx.quick() else ((3, 6), (4, 8), (6, 12), (8, 16)):
        rsb = np.random.RandomState(1000 + m1)
        A1 = quaternion.as_quat_array(rsb.randn(m1, n1, 4)); A2 = quaternion.as_quat_array(np.array([[[1, 0, 0, 0], [1, 0, 0, 0], [0, 1, 0, 0], [0, 0, 1, 0]], [[1, 0, 0, 0], [1.3, 0, 0, 0], [0, 1, 0, 0], [0, 0, 0.6, 0.2]]], dtype=float))
        m, n = m1 + 2, n1 + 4; Ab = np.zeros((m, n), dtype=np.quaternion); Ab[:m1, :n1] = A1; Ab[m1:, n1:] = A2
        svb = np.linalg.svd(utils.real_expand(Ab), compute_uv=False); condb = float(svb[0] / svb[4 * m - 1])
        if condb > 1e3: ctx.cov['discarded'] += 1; continue
        Pb = pinv(Ab)
        for tss in sorted({2, m - 2}):
            for seed in list(seeds)[:3]:
                inp = {'solver': 'RSP compute() on wide input', 'shape': [m, n], 'test_sketch_size': tss, 'seed': seed, 'cond': condb}
                try: Xb, ib = solver.RandomizedSketchProjectPseudoinverse(block_size=2, max_iter=3000, tol=1e-6, seed=seed, test_sketch_size=tss).compute(Ab)
                except Exception as e: viol('C13:rsp-row:narrow-probe:raises', f'RSP raised {e!r}', inp); continue
                if not cm.all_finite(Xb): continue
                trb = fro(utils.quat_matmat(Ab, Xb) - utils.quat_eye(m)) / math.sqrt(m)
                if ib['converged'] and trb > 100 * 1e-6: viol('C13:rsp-row:narrow-probe:flag-multiple', f'row variant with {tss} test columns (< {m} rows) reports converged with ||AX - I||/sqrt(m) = {trb:.3e} > 100 tol', inp, trb)
                if ib['converged'] and fro(Xb - Pb) > 1e-2 * fro(Pb): viol('C13:rsp-row:narrow-probe:pinv', 'converged row-variant result is far from the pseudoinverse', inp, fro(Xb - Pb) / fro(Pb))
                ctx.count(('rsp-row-narrow', m, n, tss, seed), True)
    res = cm.run_cases(ctx, 'cases_cgne', HEADER, cterms, 'check_cgne', shard=2, timeout=900)
    if res is not None:
        ctx.cov['traces_validated_against_impl'] += len(res)
        bad = [i for i, r in enumerate(res) if not r]
        if bad: ctx.broken.append(f'CGNE model and implementation disagree on {len(bad)} of {len(res)} trajectory(ies), first: {cterms[bad[0]][:400]}')
    _An, _Aq = wellcond(4, 3, 3)
    cm.layout_sweep(ctx, qx, 'C13', 'CGNEQSolver', lambda X: solver.CGNEQSolver(tol=0.0, max_iter=2).compute(X)[0], _An, {'shape': [4, 3]})
    ctx.cov['rule'] = ('full-column-rank matrices with prescribed condition number (exact rational construction), shapes ' + str(shapes) + '; CGNE: every residual and the final iterate against the exact Qc trajectory, flag / history / pseudoinverse accuracy for tol 1e-3..1e-8; '
                       f'RSP column and row variants, hybrid: seeds {list(seeds)}, block sizes 1..n, qr and spd micro-solvers, hyper-power orders, with the test sketch recorded from the global generator so that the sketch bound and the proxy of the returned iterate are recomputed exactly.')
    return cm.finish(ctx, 'proof', '', ASSUME)

ASSUME = ['convergence within the budget and in expectation is observed, not proved', 'soundness of the randomized flags is a theorem only relative to the test sketch having a right inverse (n <= number of test columns); the bound is recomputed with the recorded sketch',
          'qr_qua / the CG micro-solver are oracles for the projection step (its identity is proved for any left inverse)']
