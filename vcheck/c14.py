"""C14: results depend only on configuration and arguments: no hidden state, no argument mutation,
same behaviour under both import styles."""
import os, sys, itertools, hashlib, subprocess, json, io, contextlib, warnings
from . import common as cm

def digest(x):
    """bit-exact fingerprint of a result (arrays, dicts of arrays/floats, tuples ...); timing entries dropped"""
    import numpy as np, quaternion
    h = hashlib.sha256()
    def go(v, key=''):
        if isinstance(v, dict):
            for k in sorted(v):
                if 'time' in str(k): continue
                h.update(str(k).encode()); go(v[k], str(k))
        elif isinstance(v, (list, tuple)):
            h.update(b'[%d' % len(v))
            for t in v: go(t)
        elif isinstance(v, np.ndarray):
            a = quaternion.as_float_array(v) if v.dtype == np.quaternion else v
            h.update(str(a.shape).encode()); h.update(np.ascontiguousarray(a).tobytes())
        elif hasattr(v, 'toarray'): go(v.toarray())
        elif hasattr(v, 'real') and hasattr(v, 'i') and hasattr(v, 'shape') and not isinstance(v, (int, float, complex, np.generic)):
            for c in (v.real, v.i, v.j, v.k): go(c.toarray())
        elif v is None: h.update(b'None')
        else: h.update(repr(v).encode())
    go(x); return h.hexdigest()

FLAT_SCRIPT = r'''
import sys, hashlib, warnings, io, contextlib
warnings.simplefilter('ignore')
STYLE = sys.argv[1]; REPO = sys.argv[2]
import json
import numpy as np, quaternion
if STYLE == 'flat':
    sys.path.insert(0, REPO + '/quatica'); sys.path.insert(0, REPO)
    import utils as U, solver as S
    from decomp import qsvd, LU as LUm
    from decomp.qsvd import qr_qua, classical_qsvd_full
    from decomp.LU import quaternion_lu
    from decomp.hessenberg import hessenbergize
    from decomp.eigen import quaternion_eigendecomposition
else:
    sys.path.insert(0, REPO)
    import quatica
    import quatica.utils as U, quatica.solver as S
    from quatica.decomp.qsvd import qr_qua, classical_qsvd_full
    from quatica.decomp.LU import quaternion_lu
    from quatica.decomp.hessenberg import hessenbergize
    from quatica.decomp.eigen import quaternion_eigendecomposition
rs = np.random.RandomState(7)
def Q(m, n): return quaternion.as_quat_array(rs.randint(-3, 4, size=(m, n, 4)).astype(float))
A = Q(4, 3); B = Q(3, 2); Sq = Q(3, 3); Hm = Sq + np.transpose(np.conjugate(Sq)); b = Q(3, 1)
h = hashlib.sha256()
digs = []; depth = [0]
def put(x):
    depth[0] += 1
    try: _put(x)
    finally:
        depth[0] -= 1
        if depth[0] == 0: digs.append(h.hexdigest()[:16])
def _put(x):
    if isinstance(x, (tuple, list)):
        for t in x: put(t)
    elif isinstance(x, dict):
        for k in sorted(x):
            if 'time' not in k and not k.startswith('V'): put(x[k])
    elif isinstance(x, np.ndarray): h.update(np.ascontiguousarray(quaternion.as_float_array(x) if x.dtype == np.quaternion else x).tobytes())
    else: h.update(repr(x).encode())
with contextlib.redirect_stdout(io.StringIO()):
    put(U.quat_matmat(A, B)); put(U.quat_frobenius_norm(A)); put(U.real_expand(B)); put(U.matrix_norm(A, 1)); put(U.rank(A))
    put(qr_qua(A)); put(classical_qsvd_full(A)); put(quaternion_lu(Sq, return_p=True)); put(hessenbergize(Sq)); put(quaternion_eigendecomposition(Hm))
    put(S.NewtonSchulzPseudoinverse(max_iter=5).compute(A)[0]); put(S.QGMRESSolver(tol=1e-10).solve(Sq, b)[0])
    np.random.seed(3); put(S.RandomizedSketchProjectPseudoinverse(block_size=2, max_iter=4).compute(A)[0])
    put(S.CGNEQSolver(max_iter=5).compute(A)[0]); put(U.det(Hm, 'Moore')); put(U.quat_null_space(Q(2, 4)))
    # every solver configuration and the remaining decomposition / iteration entry points (answers AND info records)
    put(S.QGMRESSolver(tol=1e-10, preconditioner='left_lu').solve(Sq, b)); put(S.QGMRESSolver(tol=1e-10).solve(Sq, b)[1])
    put(S.HigherOrderNewtonSchulzPseudoinverse(max_iter=3).compute(A)[0]); put(S.NewtonSchulzPseudoinverse(max_iter=3, compute_residuals=False).compute(A)[0])
    np.random.seed(4); put(S.RandomizedSketchProjectPseudoinverse(block_size=2, max_iter=3, column_solver='spd').compute(A)[0])
    np.random.seed(4); put(S.RandomizedSketchProjectPseudoinverse(block_size=2, max_iter=3).compute(np.transpose(np.conjugate(A)))[0])
    for _nm in ('HybridRSPNewtonSchulz',):
        if hasattr(S, _nm):
            np.random.seed(5); put(getattr(S, _nm)(max_iter=3).compute(A)[0])
    if STYLE == 'flat':
        from decomp import schur as SC, tridiagonalize as TR
        from decomp.qsvd import rand_qsvd, pass_eff_qsvd, classical_qsvd
    else:
        from quatica.decomp import schur as SC, tridiagonalize as TR
        from quatica.decomp.qsvd import rand_qsvd, pass_eff_qsvd, classical_qsvd
    import importlib
    TRm = importlib.import_module(('' if STYLE == 'flat' else 'quatica.') + 'decomp.tridiagonalize')
    put(TRm.tridiagonalize(Hm)); put(classical_qsvd(A, 2))
    np.random.seed(6); put(rand_qsvd(A, 2, oversample=1, n_iter=1)); np.random.seed(6); put(pass_eff_qsvd(A, 2, oversample=1, n_passes=3))
    for _v in ('rayleigh', 'implicit', 'aed', 'ds'): put(SC.quaternion_schur_unified(Sq, variant=_v, max_iter=4)[:2])
    put(SC.quaternion_schur(Sq, max_iter=4)[:2]); put(SC.quaternion_schur_experimental(Sq, max_iter=4)[:2])
    np.random.seed(8); put(U.power_iteration(Hm, max_iterations=5, return_eigenvalue=True)); put(U.power_iteration_nonhermitian(Sq, max_iterations=4, seed=1)[:2])
    for _o in (1, np.inf, 'fro', 2): put(U.matrix_norm(A, _o))
    put(U.quat_null_left(A)); put(U.det(Sq, 'Dieudonne')); put(U.quaternion_to_complex_adjoint(Sq)); put(U.Realp(*[quaternion.as_float_array(B)[..., c] for c in range(4)]))
print(json.dumps(digs))
'''

def run(ctx):
    cm.setup_impl_path(); sys.path.insert(0, os.path.join(cm.ROOT, 'qtrans'))
    for b in cm.audit(cm.coq_sources() + [os.path.join(cm.ROOT, 'props', 'C14.v')]): ctx.broken.append('audit: ' + b)
    info = None
    try:
        import gen_c14
        txt, info = gen_c14.generate(cm.REPO)
        open(os.path.join(ctx.build, 'Gen_C14.v'), 'w').write(txt)
        ctx.obligations.append((f'translate:field writes of {len(info["classes"])} classes in solver.py', True, ''))
    except Exception as e:
        ctx.obligations.append(('translate', False, repr(e)))
        ctx.broken.append(f'qtrans cannot translate the field writes of solver.py any more: {e!r}')
    if info is not None: cm.prove(ctx, 'C14.v', ['Gen_C14.v'])
    try:
        import numpy as np, quaternion, importlib
        from scipy import sparse
        import utils, solver, tensor, qslst
        LU, eigen, tri, hessenberg, schur, qsvd = (importlib.import_module('decomp.' + x) for x in ('LU', 'eigen', 'tridiagonalize', 'hessenberg', 'schur', 'qsvd'))
    except Exception as e:
        ctx.broken.append(f'implementation does not import: {e!r}'); return cm.finish(ctx, 'proof', '', ASSUME)
    warnings.simplefilter('ignore')
    def viol(sig, what, inp, obs='', exp=''):
        ctx.violations.append({'sig': sig, 'what': what, 'input': inp, 'observed': str(obs)[:300], 'expected': str(exp)[:300], 'oracle': 'fresh object with the same configuration / byte hashes of the arguments'})
    rs = np.random.RandomState(99 + ctx.seed)
    def Qm(m, n): return quaternion.as_quat_array(rs.randint(-3, 4, size=(m, n, 4)).astype(float))
    def wellcond(n): return Qm(n, n) + 6 * utils.quat_eye(n)
    tall = [Qm(3, 2), Qm(2, 2) + 3 * utils.quat_eye(2), Qm(6, 5), Qm(5, 2)]
    wide = [Qm(2, 3), Qm(2, 6), Qm(1, 4)]
    sq = [(wellcond(2), Qm(2, 1)), (wellcond(6), Qm(6, 1)), (wellcond(3), Qm(3, 1)), (wellcond(5), Qm(5, 1))]
    spA = utils.SparseQuaternionMatrix(*[sparse.csr_matrix(c) for c in np.moveaxis(quaternion.as_float_array(tall[2]), -1, 0)], tall[2].shape)
    L = 2 if ctx.quick() else 3
    deep = [(Qm(4, 3), [3, 2, 4]), (Qm(5, 2), [2, 3, 5]), (Qm(3, 3), [3, 3])]   # (samples x input_dim, layer widths)
    classes = [
        ('NewtonSchulzPseudoinverse', lambda: solver.NewtonSchulzPseudoinverse(gamma=0.5, max_iter=6), lambda o, p: o.compute(p), tall[:3] + wide[:1] + [spA]),
        ('NewtonSchulzPseudoinverse[no-residuals]', lambda: solver.NewtonSchulzPseudoinverse(gamma=1.0, max_iter=6, compute_residuals=False), lambda o, p: o.compute(p), tall[:2] + wide[:2]),
        ('HigherOrderNewtonSchulzPseudoinverse', lambda: solver.HigherOrderNewtonSchulzPseudoinverse(max_iter=4), lambda o, p: o.compute(p)[:2], tall[:3] + wide[:1]),   # third value = wall-clock timings
        ('QGMRESSolver', lambda: solver.QGMRESSolver(tol=1e-10), lambda o, p: o.solve(*p), sq),
        ('QGMRESSolver[left_lu]', lambda: solver.QGMRESSolver(tol=1e-10, preconditioner='left_lu'), lambda o, p: o.solve(*p), sq[:3]),
        ('QGMRESSolver[max_iter=2]', lambda: solver.QGMRESSolver(tol=1e-10, max_iter=2), lambda o, p: o.solve(*p), sq[:3]),
        ('RandomizedSketchProjectPseudoinverse', lambda: solver.RandomizedSketchProjectPseudoinverse(block_size=4, max_iter=5, seed=1), lambda o, p: o.compute(p), tall + wide[:2]),
        ('RandomizedSketchProjectPseudoinverse[spd]', lambda: solver.RandomizedSketchProjectPseudoinverse(block_size=3, max_iter=4, column_solver='spd'), lambda o, p: o.compute(p), tall[:3] + wide[:1]),
        ('HybridRSPNewtonSchulz', lambda: solver.HybridRSPNewtonSchulz(r=2, p=2, T=2, max_iter=4, seed=1), lambda o, p: o.compute(p), tall[:3]),
        ('CGNEQSolver', lambda: solver.CGNEQSolver(max_iter=5), lambda o, p: o.compute(p), tall),
        ('CGNEQSolver[prec]', lambda: solver.CGNEQSolver(max_iter=4, preconditioner_rank=1, seed=2), lambda o, p: o.compute(p), tall[:3]),
        ('DeepLinearNewtonSchulz', lambda: solver.DeepLinearNewtonSchulz(max_iter=2), lambda o, p: o.compute(p[0], p[1]), deep),
        ('DeepLinearNewtonSchulz[random_init]', lambda: solver.DeepLinearNewtonSchulz(max_iter=2, random_init=True), lambda o, p: o.compute(p[0], p[1]), deep),
    ]
    # constructors that take seed=: with a seed in the configuration (0 included) two fresh objects built in different states of the global
    # generator, and called straight away, return the same bits
    seeded = [
        ('RandomizedSketchProjectPseudoinverse', lambda sd: solver.RandomizedSketchProjectPseudoinverse(block_size=2, max_iter=4, seed=sd), tall[:2] + wide[:1]),
        ('HybridRSPNewtonSchulz', lambda sd: solver.HybridRSPNewtonSchulz(r=2, p=2, T=2, max_iter=3, seed=sd), tall[:2]),
        ('CGNEQSolver[prec=2]', lambda sd: solver.CGNEQSolver(max_iter=4, preconditioner_rank=2, seed=sd), tall[:3]),
        ('CGNEQSolver[prec=3]', lambda sd: solver.CGNEQSolver(max_iter=3, preconditioner_rank=3, seed=sd), [t for t in tall if t.shape[1] >= 3][:2]),
    ]
    for name, mk1, pool in seeded:
        for sd in (0, 1, 7, 2 ** 31 - 1):
            for i, p in enumerate(pool):
                outs = []
                for g in (111, 222):
                    np.random.seed(g); np.random.standard_normal(g % 7)
                    try:
                        o = mk1(sd)
                        with contextlib.redirect_stdout(io.StringIO()): outs.append(digest(o.compute(p)[0]))
                    except Exception as e: outs.append(repr(e)[:80])
                if outs[0] != outs[1]: viol(f'C14:{name}:seed-ignored:seed={sd}', f'two fresh {name}(seed={sd}) objects built in different states of the global generator disagree', {'problem': i, 'seed': sd})
                ctx.count(('seeded', name, sd, i), True)
    def call(o, f, p, seed=1234):
        np.random.seed(seed)                   # value = function of (configuration, arguments, global RNG state at entry)
        with contextlib.redirect_stdout(io.StringIO()): return f(o, p)
    nh = 0
    for name, mk, f, pool in classes:
        fresh = {}
        for i, p in enumerate(pool):
            o = mk(); before = digest(p)
            try: fresh[i] = digest(call(o, f, p))
            except Exception as e:
                viol(f'C14:{name}:raises', f'fresh {name} raised {e!r}', {'problem': i}); fresh[i] = None
            if digest(p) != before: viol(f'C14:{name}:mutates-argument', f'{name} modified its argument', {'problem': i})
            o2 = mk()
            if fresh[i] is not None and digest(call(o2, f, p)) != fresh[i]: viol(f'C14:{name}:not-a-function', f'two fresh {name} objects disagree on the same problem and seed', {'problem': i})
        for k in range(1, L + 1):
            for hist in itertools.product(range(len(pool)), repeat=k):
                last = pool[hist[-1]]
                o = mk()
                try:
                    for j in hist[:-1]:
                        d0 = {a: digest(v) for a, v in vars(o).items()}
                        call(o, f, pool[j])
                        d1 = {a: digest(v) for a, v in vars(o).items()}
                        if d0 != d1:
                            ch = sorted(a for a in set(d0) | set(d1) if d0.get(a) != d1.get(a))
                            viol(f'C14:{name}:field-changed:{",".join(ch)}', f'calling {name} changed its own fields {ch}', {'history': [list(np.shape(pool[x] if not isinstance(pool[x], tuple) else pool[x][0])) for x in hist]})
                    r = digest(call(o, f, last))
                except Exception as e:
                    viol(f'C14:{name}:raises', f'reused {name} raised {e!r}', {'history': hist}); continue
                if fresh[hist[-1]] is not None and r != fresh[hist[-1]]:
                    shp = [list(pool[x].shape if not isinstance(pool[x], tuple) else pool[x][0].shape) for x in hist]
                    viol(f'C14:{name}:reuse-differs', f'a reused {name} returns something else than a fresh one (history of shapes {shp})', {'history_shapes': shp})
                nh += 1
                ctx.count((name, hist), len(hist) >= 2, sample={'class': name, 'history_problem_indices': list(hist)} if hist == (1, 0) else None)
    # argument mutation across the public functions
    A = Qm(4, 3); B = Qm(3, 2); S = Qm(3, 3); Hm = S + np.transpose(np.conjugate(S)); T3 = quaternion.as_quat_array(rs.rand(2, 3, 4, 4)); img = rs.rand(4, 5, 4); psf = np.ones((3, 3)) / 9
    comp = lambda X: [np.ascontiguousarray(c) for c in np.moveaxis(quaternion.as_float_array(X), -1, 0)]
    Rt = [np.triu(rs.randint(1, 4, size=(3, 3)).astype(float)) + np.eye(3) for _ in range(4)]; bt = [rs.rand(3, 1) for _ in range(4)]
    calls = [
        ('quat_matmat', lambda a: utils.quat_matmat(*a), [A, B]), ('quat_hermitian', lambda a: utils.quat_hermitian(*a), [A]), ('quat_frobenius_norm', lambda a: utils.quat_frobenius_norm(*a), [A]),
        ('matrix_norm(1)', lambda a: utils.matrix_norm(a[0], 1), [A]), ('matrix_norm(2)', lambda a: utils.matrix_norm(a[0], 2), [A]), ('real_expand', lambda a: utils.real_expand(*a), [A]),
        ('real_contract', lambda a: utils.real_contract(a[0], 4, 3), [utils.real_expand(A)]), ('Realp', lambda a: utils.Realp(*a), comp(A)), ('timesQsparse', lambda a: utils.timesQsparse(*a), comp(A) + comp(B)),
        ('normQsparse', lambda a: utils.normQsparse(*a), comp(A)), ('A2A0123', lambda a: utils.A2A0123(*a), [rs.rand(3, 8)]), ('rank', lambda a: utils.rank(*a), [A]), ('det', lambda a: utils.det(a[0], 'Dieudonne'), [S]),
        ('ishermitian', lambda a: utils.ishermitian(*a), [Hm]), ('quat_null_space', lambda a: utils.quat_null_space(*a), [Qm(2, 4)]), ('power_iteration', lambda a: utils.power_iteration(a[0], max_iterations=5), [Hm]),
        ('power_iteration_nonhermitian', lambda a: utils.power_iteration_nonhermitian(a[0], max_iterations=20), [S]), ('quaternion_to_complex_adjoint', lambda a: utils.quaternion_to_complex_adjoint(*a), [S]),
        ('qr_qua', lambda a: qsvd.qr_qua(*a), [A]), ('classical_qsvd', lambda a: qsvd.classical_qsvd(a[0], 2), [A]), ('classical_qsvd_full', lambda a: qsvd.classical_qsvd_full(*a), [A]),
        ('rand_qsvd', lambda a: qsvd.rand_qsvd(a[0], 2), [A]), ('pass_eff_qsvd', lambda a: qsvd.pass_eff_qsvd(a[0], 2), [A]), ('quaternion_lu', lambda a: LU.quaternion_lu(*a), [S]), ('quaternion_lu(P)', lambda a: LU.quaternion_lu(a[0], return_p=True), [A]),
        ('quaternion_eigendecomposition', lambda a: eigen.quaternion_eigendecomposition(*a), [Hm]), ('tridiagonalize', lambda a: tri.tridiagonalize(*a), [Hm]), ('hessenbergize', lambda a: hessenberg.hessenbergize(*a), [S]),
        ('quaternion_schur', lambda a: schur.quaternion_schur(a[0], max_iter=5), [S]), ('quaternion_schur_pure', lambda a: schur.quaternion_schur_pure(a[0], max_iter=5), [S]),
        ('quaternion_schur_pure_implicit', lambda a: schur.quaternion_schur_pure_implicit(a[0], max_iter=5), [S]), ('quaternion_schur_unified', lambda a: schur.quaternion_schur_unified(a[0], variant='aed', max_iter=5), [S]),
        ('quaternion_schur_unified[ds]', lambda a: schur.quaternion_schur_unified(a[0], variant='ds', max_iter=5), [S]), ('quaternion_schur_unified[hermitian,aed]', lambda a: schur.quaternion_schur_unified(a[0], variant='aed', max_iter=8), [Hm]),
        ('quaternion_schur_experimental', lambda a: schur.quaternion_schur_experimental(a[0], max_iter=5), [S]), ('quaternion_schur_experimental[francis_ds]', lambda a: schur.quaternion_schur_experimental(a[0], variant='francis_ds', max_iter=5), [S]),
        # the diagnostics record that the drivers return on request: it belongs to that call (it must not contain the records of earlier calls, and
        # a record already handed out must not change when the routine is called again)
        ('quaternion_schur[diagnostics]', lambda a: schur.quaternion_schur(a[0], max_iter=5, return_diagnostics=True), [S]),
        ('quaternion_schur_pure[diagnostics]', lambda a: schur.quaternion_schur_pure(a[0], max_iter=5, return_diagnostics=True), [S]),
        ('quaternion_schur_pure_implicit[diagnostics]', lambda a: schur.quaternion_schur_pure_implicit(a[0], max_iter=5, return_diagnostics=True), [S]),
        ('quaternion_schur_unified[rayleigh,diagnostics]', lambda a: schur.quaternion_schur_unified(a[0], variant='rayleigh', max_iter=5, return_diagnostics=True), [S]),
        ('quaternion_schur_unified[aed,diagnostics]', lambda a: schur.quaternion_schur_unified(a[0], variant='aed', max_iter=5, return_diagnostics=True), [S]),
        ('quaternion_schur_experimental[diagnostics]', lambda a: schur.quaternion_schur_experimental(a[0], max_iter=5, return_diagnostics=True), [S]),
        ('Hess_QR_ggivens', lambda a: utils.Hess_QR_ggivens(*a), [np.vstack([np.triu(rs.rand(4, 3), -1) for _ in range(4)])]), ('UtriangleQsparse', lambda a: utils.UtriangleQsparse(*a), Rt + bt),
        ('tensor_frobenius_norm', lambda a: tensor.tensor_frobenius_norm(*a), [T3]), ('tensor_entrywise_abs', lambda a: tensor.tensor_entrywise_abs(*a), [T3]), ('normQ', lambda a: utils.normQ(*a), [A]),
        ('induced_matrix_norm_1', lambda a: utils.induced_matrix_norm_1(*a), [A]), ('induced_matrix_norm_inf', lambda a: utils.induced_matrix_norm_inf(*a), [A]), ('spectral_norm_2', lambda a: utils.spectral_norm_2(*a), [A]),
        ('tensor_unfold', lambda a: tensor.tensor_unfold(a[0], 1), [T3]), ('tensor_fold', lambda a: tensor.tensor_fold(a[0], 1, (2, 3, 4)), [tensor.tensor_unfold(T3, 1)]),
        ('apply_blur_fft', lambda a: qslst.apply_blur_fft(*a), [img, psf]), ('qslst_restore_fft', lambda a: qslst.qslst_restore_fft(a[0], a[1], 0.1), [img, psf]), ('qslst_restore_matrix', lambda a: qslst.qslst_restore_matrix(a[0], a[1], 0.1), [rs.rand(2, 3, 4), rs.rand(6, 6)]),
        ('rgb_to_quat', lambda a: qslst.rgb_to_quat(*a), [rs.rand(3, 4, 3)]), ('quat_to_rgb', lambda a: qslst.quat_to_rgb(*a), [rs.rand(3, 4, 4)]), ('add_awgn_snr', lambda a: qslst.add_awgn_snr(a[0], 10.0, rng=np.random.default_rng(0)), [img]),
        ('psnr', lambda a: qslst.psnr(*a), [rs.rand(3, 4), rs.rand(3, 4)]), ('relative_error', lambda a: qslst.relative_error(*a), [rs.rand(3, 4), rs.rand(3, 4)]),
    ]
    # the remaining public functions of the anchored modules (reflector builders with non-unit targets, Givens generators, component kernels,
    # structure checks, verification helpers, null-space wrappers, image helpers and metrics)
    _e1 = np.zeros(3); _e1[0] = 3.0; _e12 = np.array([1.0, 1.0, 0.0]); _a3 = Qm(3, 1).reshape(3)
    _tri_in = quaternion.as_quat_array(np.concatenate([np.triu(np.tril(rs.rand(4, 4), 1), -1)[..., None], np.zeros((4, 4, 3))], axis=-1))
    _g = [rs.rand(4), rs.rand(4)]
    try: _lu = LU.quaternion_lu(S, return_p=True)
    except Exception: _lu = None
    try: _ev = eigen.quaternion_eigendecomposition(Hm)
    except Exception: _ev = None
    def _decoupled(k):
        Gd = Qm(k - 1, k - 1); Hd = Gd + np.transpose(np.conjugate(Gd)); Md = np.zeros((k, k), dtype=np.quaternion)
        Md[0, 0] = quaternion.quaternion(2.0, 0, 0, 0); Md[1:, 1:] = Hd
        return Md
    calls += [
        ('householder_vector[3 e1]', lambda a: tri.householder_vector(*a), [_a3.copy(), _e1.copy() / 3.0]), ('householder_matrix[3 e1]', lambda a: tri.householder_matrix(*a), [_a3.copy(), _e1.copy()]),
        ('householder_matrix[e1+e2]', lambda a: tri.householder_matrix(*a), [_a3.copy(), _e12.copy()]), ('householder_matrix[-0.5 e2]', lambda a: tri.householder_matrix(*a), [_a3.copy(), np.array([0.0, -0.5, 0.0])]),
        ('internal_tridiagonalizer', lambda a: tri.internal_tridiagonalizer(*a), [Hm.copy()]), ('check_tridiagonal', lambda a: tri.check_tridiagonal(*a), [_tri_in]),
        ('check_hessenberg', lambda a: hessenberg.check_hessenberg(*a), [S.copy()]),
        ('check_hessenberg[negligible entries below the sub-diagonal]', lambda a: hessenberg.check_hessenberg(*a), [np.triu(S, -1) + np.tril(np.ones((S.shape[0], S.shape[0])), -2) * quaternion.quaternion(3e-14, -2e-15, 1e-13, 4e-16)]),
        ('check_tridiagonal[negligible entries outside the band]', lambda a: tri.check_tridiagonal(*a), [_tri_in + (np.ones((4, 4)) - np.triu(np.tril(np.ones((4, 4)), 1), -1)) * quaternion.quaternion(2e-15, 1e-16, -3e-15, 1e-15)]),
        ('is_hessenberg[negligible entries]', lambda a: hessenberg.is_hessenberg(*a), [np.triu(S, -1) + np.tril(np.ones((S.shape[0], S.shape[0])), -2) * quaternion.quaternion(3e-14, 0, 0, 0)]), ('is_hessenberg', lambda a: hessenberg.is_hessenberg(*a), [S.copy()]),
        ('ggivens', lambda a: utils.ggivens(*a), _g), ('GRSGivens', lambda a: utils.GRSGivens(*a), [rs.rand(4)]),
        ('absQsparse', lambda a: utils.absQsparse(*a), comp(A)), ('dotinvQsparse', lambda a: utils.dotinvQsparse(*a), comp(A)),
        ('quat_hermitian', lambda a: utils.quat_hermitian(*a), [A.copy()]), ('quat_matmat', lambda a: utils.quat_matmat(*a), [A.copy(), B.copy()]), ('quat_frobenius_norm', lambda a: utils.quat_frobenius_norm(*a), [A.copy()]),
        ('quat_kernel[left]', lambda a: utils.quat_kernel(a[0], 'left'), [Qm(4, 2)]), ('quat_null_left', lambda a: utils.quat_null_left(*a), [Qm(4, 2)]), ('quat_null_right', lambda a: utils.quat_null_right(*a), [Qm(2, 4)]),
        ('compute_real_svd_pinv', lambda a: utils.compute_real_svd_pinv(*a), [rs.rand(4, 3)]),
        ('compute_real_svd_pinv[rank-deficient]', lambda a: utils.compute_real_svd_pinv(*a), [np.outer(rs.rand(6), rs.rand(5)) + np.outer(rs.rand(6), rs.rand(5))]),
        ('compute_real_svd_pinv[zero column]', lambda a: utils.compute_real_svd_pinv(*a), [np.hstack([rs.rand(5, 2), np.zeros((5, 1)), rs.rand(5, 1)])]),
        ('compute_real_svd_pinv[embedding of rank 1]', lambda a: utils.compute_real_svd_pinv(*a), [utils.real_expand(utils.quat_matmat(Qm(3, 1), Qm(1, 4)))]),
        ('quaternion_modulus', lambda a: LU.quaternion_modulus(*a), [A.copy()]), ('quaternion_triu', lambda a: LU.quaternion_triu(a[0], 1), [S.copy()]), ('quaternion_tril', lambda a: LU.quaternion_tril(a[0], -1), [S.copy()]),
        ('quaternion_eigenvalues', lambda a: eigen.quaternion_eigenvalues(*a), [Hm.copy()]),
        # a Hermitian matrix whose first row and column are decoupled from a dense trailing block (the first reflector is the identity)
        ('tridiagonalize[decoupled first row]', lambda a: tri.tridiagonalize(*a), [_decoupled(5)]), ('internal_tridiagonalizer[decoupled first row]', lambda a: tri.internal_tridiagonalizer(*a), [_decoupled(4)]),
        ('quaternion_eigendecomposition[decoupled first row]', lambda a: eigen.quaternion_eigendecomposition(*a), [_decoupled(4)]), ('det(Moore)[decoupled first row]', lambda a: utils.det(a[0], 'Moore'), [_decoupled(3)]), ('quaternion_eigenvectors', lambda a: eigen.quaternion_eigenvectors(*a), [Hm.copy()]),
        ('build_psf_gaussian', lambda a: qslst.build_psf_gaussian(2, 1.5), []), ('build_psf_motion', lambda a: qslst.build_psf_motion(5, 30.0), []),
        ('psnr', lambda a: qslst.psnr(*a), [rs.rand(3, 4), rs.rand(3, 4)]), ('relative_error', lambda a: qslst.relative_error(*a), [rs.rand(3, 4), rs.rand(3, 4)]),
        ('split_quat_channels', lambda a: qslst.split_quat_channels(*a), [rs.rand(3, 4, 4)]), ('stack_quat_channels', lambda a: qslst.stack_quat_channels(*a), [rs.rand(3, 4) for _ in range(4)]),
    ]
    if _lu is not None: calls.append(('verify_lu_decomposition', lambda a: LU.verify_lu_decomposition(*a), [S.copy(), _lu[0].copy(), _lu[1].copy(), _lu[2].copy()]))
    if _ev is not None: calls.append(('verify_eigendecomposition', lambda a: eigen.verify_eigendecomposition(*a), [Hm.copy(), np.array(_ev[0]).copy(), np.array(_ev[1]).copy()]))
    documented_inplace = {'UtriangleQsparse': 'documented: "Solution vector components (overwrites input b)"'}
    def poison(v):
        # freed heap blocks of every small size are refilled with v: a routine that reads memory it never wrote (np.empty, a where= mask
        # without out=) then answers differently on the repeat call, although nothing it was handed has changed
        for k in list(range(1, 65)) + [96, 128, 256, 512, 1024]:
            blk = [np.full(k, v) for _ in range(10)]
            del blk
    for name, f, args in calls:
        before = [digest(a) for a in args]
        np.random.seed(5); poison(1.2345e300)
        try:
            with contextlib.redirect_stdout(io.StringIO()): res1 = f(args); r1 = digest(res1)
        except Exception as e:
            viol(f'C14:{name}:raises', f'{name} raised {e!r} on an in-domain argument', {}); continue
        after = [digest(a) for a in args]
        changed = [i for i, (x, y) in enumerate(zip(before, after)) if x != y]
        if changed and name not in documented_inplace: viol(f'C14:{name}:mutates-argument', f'{name} modified argument(s) {changed}', {'function': name})
        if not changed:
            np.random.seed(5); poison(float('nan'))
            with contextlib.redirect_stdout(io.StringIO()): r2 = digest(f(args))
            if r1 != r2: viol(f'C14:{name}:not-repeatable', f'{name} returns different bits when the call is repeated (same global seed, same untouched arguments; freed heap blocks refilled in between)', {'function': name})
            if digest(res1) != r1: viol(f'C14:{name}:result-changed-later', f'the value {name} returned earlier changed when the routine was called again', {'function': name})
        # the answer depends on the CONTENT of the arguments, not on which array object carries it: compute the answer for doubled copies,
        # call on the originals, double the originals in place, call again on the same objects (a cache keyed by identity would answer stale)
        if not changed and name not in documented_inplace and all(isinstance(a, np.ndarray) for a in args):
            try:
                dbl = [a * 2 for a in args]
                np.random.seed(5)
                with contextlib.redirect_stdout(io.StringIO()): want = digest(f(dbl))
                np.random.seed(5)
                with contextlib.redirect_stdout(io.StringIO()): f(args)
                for a in args: a *= 2
                np.random.seed(5)
                with contextlib.redirect_stdout(io.StringIO()): got = digest(f(args))
                for a in args: a /= 2
                if got != want: viol(f'C14:{name}:stale-after-inplace-edit', f'{name} called again after its argument was edited in place returns something else than on a fresh array with the same content', {'function': name})
            except Exception as e:
                ctx.notes.append(f'in-place re-call of {name} not evaluated: {e!r}'[:160])
        ctx.count(('mut', name), True)
    import solver as _S
    # boundary sizes take their own shortcuts: the same two checks (argument untouched, repeat = first answer) on 1x1 and 2x2 inputs
    for nsz in (1, 2):
        Ss = Qm(nsz, nsz); Hs = Ss + np.transpose(np.conjugate(Ss)); bs_ = Qm(nsz, 1)
        small = [('quaternion_schur', lambda X: schur.quaternion_schur(X, max_iter=6)), ('quaternion_schur_pure', lambda X: schur.quaternion_schur_pure(X, max_iter=6)),
                 ('quaternion_schur_pure_implicit', lambda X: schur.quaternion_schur_pure_implicit(X, max_iter=6)), ('quaternion_schur_experimental', lambda X: schur.quaternion_schur_experimental(X, max_iter=6)),
                 ('quaternion_schur_experimental[francis_ds]', lambda X: schur.quaternion_schur_experimental(X, variant='francis_ds', max_iter=6)), ('hessenbergize', lambda X: hessenberg.hessenbergize(X)),
                 ('quaternion_lu', lambda X: LU.quaternion_lu(X, return_p=True)), ('qr_qua', lambda X: qsvd.qr_qua(X)), ('classical_qsvd_full', lambda X: qsvd.classical_qsvd_full(X)),
                 ('classical_qsvd', lambda X: qsvd.classical_qsvd(X, 1)), ('rank', lambda X: utils.rank(X)), ('det', lambda X: utils.det(X, 'Dieudonne')), ('quat_null_space', lambda X: utils.quat_null_space(X)),
                 ('matrix_norm(2)', lambda X: utils.matrix_norm(X, 2)), ('power_iteration', lambda X: utils.power_iteration(X, max_iterations=4, return_eigenvalue=True)),
                 ('NewtonSchulzPseudoinverse', lambda X: _S.NewtonSchulzPseudoinverse(max_iter=3).compute(X)[0]), ('QGMRESSolver', lambda X: _S.QGMRESSolver(tol=1e-10).solve(X + 9 * np.eye(nsz), bs_)[0])]
        small += [(f'quaternion_schur_unified[{v}]', lambda X, v=v: schur.quaternion_schur_unified(X, variant=v, max_iter=6)) for v in ('none', 'rayleigh', 'implicit', 'aed', 'ds')]
        hsmall = [('quaternion_eigendecomposition', lambda X: eigen.quaternion_eigendecomposition(X)), ('det(Moore)', lambda X: utils.det(X, 'Moore'))] + ([('tridiagonalize', lambda X: tri.tridiagonalize(X))] if nsz >= 2 else [])
        for group, base in ((small, Ss), (hsmall, Hs)):
            for name, f in group:
                X = base.copy(); before = digest(X)
                try:
                    np.random.seed(5)
                    with contextlib.redirect_stdout(io.StringIO()): r1 = digest(f(X))
                    if digest(X) != before: viol(f'C14:{name}:mutates-argument:{nsz}x{nsz}', f'{name} modified its {nsz}x{nsz} argument', {'function': name, 'n': nsz}); X = base.copy()
                    np.random.seed(5)
                    with contextlib.redirect_stdout(io.StringIO()): r2 = digest(f(X))
                    if r1 != r2: viol(f'C14:{name}:not-repeatable:{nsz}x{nsz}', f'{name} returns different bits when the call is repeated on a {nsz}x{nsz} input', {'function': name, 'n': nsz})
                except Exception as e: viol(f'C14:{name}:raises:{nsz}x{nsz}', f'{name} raised {e!r} on a {nsz}x{nsz} input', {'function': name, 'n': nsz})
                ctx.count(('small', name, nsz), True)
    # reporting options must not change the answer: every entry point with a `verbose` flag, silent vs verbose (output discarded)
    def _vb(label, call_quiet, call_verbose):
        try:
            np.random.seed(5)
            with contextlib.redirect_stdout(io.StringIO()): a0 = digest(call_quiet())
            np.random.seed(5)
            with contextlib.redirect_stdout(io.StringIO()): a1 = digest(call_verbose())
            if a0 != a1: viol(f'C14:{label}:verbose-changes-answer', f'{label} returns something else with verbose=True than with verbose=False', {'function': label})
        except Exception as e: viol(f'C14:{label}:verbose-raises', f'{label} raised {e!r} with verbose=True', {'function': label})
        ctx.count(('verbose', label), True)
    import solver as _S
    _bq = quaternion.as_quat_array(rs.randint(-3, 4, size=(3, 1, 4)).astype(float)); _Sd = S + 9 * np.eye(3)
    for _lab, _mk in (('NewtonSchulzPseudoinverse', lambda v: _S.NewtonSchulzPseudoinverse(max_iter=4, verbose=v).compute(A)), ('HigherOrderNewtonSchulzPseudoinverse', lambda v: _S.HigherOrderNewtonSchulzPseudoinverse(max_iter=3, verbose=v).compute(A)[:2]),      # third element: wall-clock times
                      ('QGMRESSolver', lambda v: _S.QGMRESSolver(tol=1e-10, verbose=v).solve(_Sd, _bq)), ('QGMRESSolver[left_lu]', lambda v: _S.QGMRESSolver(tol=1e-10, verbose=v, preconditioner='left_lu').solve(_Sd, _bq)),
                      ('RandomizedSketchProjectPseudoinverse', lambda v: _S.RandomizedSketchProjectPseudoinverse(block_size=2, max_iter=4, verbose=v).compute(A)), ('HybridRSPNewtonSchulz', lambda v: _S.HybridRSPNewtonSchulz(max_iter=3, verbose=v).compute(A)),
                      ('CGNEQSolver', lambda v: _S.CGNEQSolver(max_iter=4, verbose=v).compute(A)),
                      ('quaternion_schur', lambda v: schur.quaternion_schur(S, max_iter=5, verbose=v)), ('quaternion_schur_pure', lambda v: schur.quaternion_schur_pure(S, max_iter=5, verbose=v)),
                      ('quaternion_schur_pure_implicit', lambda v: schur.quaternion_schur_pure_implicit(S, max_iter=5, verbose=v)), ('quaternion_schur_unified[aed]', lambda v: schur.quaternion_schur_unified(S, variant='aed', max_iter=5, verbose=v)),
                      ('quaternion_schur_experimental', lambda v: schur.quaternion_schur_experimental(S, max_iter=5, verbose=v)),
                      ('power_iteration', lambda v: utils.power_iteration(Hm, max_iterations=6, return_eigenvalue=True, verbose=v)),
                      ('quaternion_eigendecomposition', lambda v: eigen.quaternion_eigendecomposition(Hm, verbose=v)), ('quaternion_eigenvalues', lambda v: eigen.quaternion_eigenvalues(Hm, verbose=v)),
                      ('quaternion_eigenvectors', lambda v: eigen.quaternion_eigenvectors(Hm, verbose=v))):
        _vb(_lab, lambda _mk=_mk: _mk(False), lambda _mk=_mk: _mk(True))
    ctx.cov['documented_in_place'] = documented_inplace
    # both import styles in fresh interpreters
    outs = {}
    for style in ('flat', 'package'):
        p = subprocess.run(['/venv/bin/python', '-c', FLAT_SCRIPT, style, cm.REPO], capture_output=True, text=True, env={**os.environ, 'PYTHONPATH': '', 'PYTHONHASHSEED': '0'})
        outs[style] = p.stdout.strip().split('\n')[-1] if p.returncode == 0 else 'ERROR: ' + p.stderr.strip()[-300:]
    if outs['flat'].startswith('ERROR') or outs['package'].startswith('ERROR'):
        viol('C14:import-styles', 'package import or flat-module import fails', outs, outs)
    elif outs['flat'] != outs['package']:
        import re as _re
        calls_src = _re.findall(r'put\((?:[^()]|\([^()]*(?:\([^()]*\)[^()]*)*\))*\)', FLAT_SCRIPT.split('with contextlib.redirect_stdout')[1])
        df, dp = json.loads(outs['flat']), json.loads(outs['package'])
        first = next((i for i, (a, b) in enumerate(zip(df, dp)) if a != b), min(len(df), len(dp)))
        viol('C14:import-styles', f'package import and flat-module import give different results; first difference at call #{first}: {calls_src[first] if first < len(calls_src) else "?"}', {'call_index': first, 'call': calls_src[first] if first < len(calls_src) else None}, {'flat': df[first:first + 1], 'package': dp[first:first + 1]})
    ctx.count(('import-styles',), True)
    ctx.cov['histories'] = nh; ctx.cov['exhaustive'] = True; ctx.cov['traces_validated_against_impl'] = nh
    ctx.cov['reseed_sites'] = info['reseed_sites'] if info else None
    ctx.cov['rule'] = (f'every call history of length <= {L} over a pool of 3-7 problems of different shapes per solver class and configuration (11 class/config pairs), exhaustively: fields hashed before/after each call, '
                       'last result compared bit-for-bit with a fresh object (global seed set before each call); 78 public functions: SHA-256 of every argument before/after and repeatability; both import styles in fresh interpreters. '
                       'Non-trivial = history of length >= 2, a mutation probe or the import probe.')
    return cm.finish(ctx, 'proof', '', ASSUME)

ASSUME = ['a method communicates with later calls only through the fields of its object and the global NumPy generator (module globals are not modelled)',
          'absence of aliasing writes into caller arrays is observed through hashes on the calls made here, not proved',
          'constructors with seed= reseed the global generator at construction; results are compared with the global seed set before each call']
