"""C15: matrix norms are genuine, mutually consistent norms."""
import os, sys, math, itertools
from fractions import Fraction
from . import common as cm
from . import qexact as qx
from .qexact import Q

HEADER = """From Coq Require Import ZArith List Bool. Import ListNotations.
From QV Require Import CRing Sums Quat Mat Exec.
From B Require Import Gen_C15.
Open Scope Z_scope.
(* (m, n, Aw, Ax, Ay, Az, radicand) : every Frobenius entry point squared equals the radicand *)
Definition check_frob (c : nat * nat * zmat * zmat * zmat * zmat * Z) : bool :=
  let '(m, n, w, x, y, z, f2) := c in
  let Aw := of_list w in let Ax := of_list x in let Ay := of_list y in let Az := of_list z in
  Z.eqb (gen_frob2_unified ZR m n Aw Ax Ay Az) f2 && Z.eqb (gen_frob2_unified_none ZR m n Aw Ax Ay Az) f2
  && Z.eqb (gen_frob2_unified_sparse ZR m n Aw Ax Ay Az) f2 && Z.eqb (gen_frob2_normQ ZR m n Aw Ax Ay Az) f2
  && Z.eqb (gen_frob2_normQsparse ZR m n Aw Ax Ay Az) f2 && Z.eqb (gen_frob2_normQsparse_sparse ZR m n Aw Ax Ay Az) f2.
"""
# quaternions with integer modulus (so that sums of moduli are exact in floats)
PYTH = [Q(1, 0, 0, 0), Q(0, 0, 2, 0), Q(1, 2, 2, 0), Q(2, 2, 1, 0), Q(1, 1, 1, 1), Q(0, 3, 4, 0), Q(2, 4, 4, 0), Q(1, 2, 2, 4), Q(0, 0, 0, 0), Q(3, 0, 0, -4), Q(-2, 3, 6, 0), Q(1, -4, 8, 0)]
def rand_pyth(rng, m, n):
    out = qx.zeros(m, n)
    for i in range(m):
        for j in range(n):
            q = PYTH[rng.randrange(len(PYTH))]; t = list(q.t()); rng.shuffle(t)
            out[i][j] = Q(*[c * rng.choice([1, -1]) for c in t])
    return out
def imod(q): return math.isqrt(q.n2())

def run(ctx):
    cm.setup_impl_path(); sys.path.insert(0, os.path.join(cm.ROOT, 'qtrans'))
    for b in cm.audit(cm.coq_sources() + [os.path.join(cm.ROOT, 'props', 'C15.v')]): ctx.broken.append('audit: ' + b)
    info = None
    try:
        import gen_c15
        txt, info = gen_c15.generate(cm.REPO)
        open(os.path.join(ctx.build, 'Gen_C15.v'), 'w').write(txt)
        ctx.obligations.append(('translate:utils.py(matrix_norm, quat_frobenius_norm, normQ, normQsparse)', True, ''))
    except Exception as e:
        ctx.obligations.append(('translate', False, repr(e))); ctx.broken.append(f'qtrans cannot translate the norm routines any more: {e!r}')
    if info is not None: cm.prove(ctx, 'C15.v', ['Gen_C15.v'])
    try:
        import numpy as np, quaternion, utils, tensor
        from scipy import sparse
        from .c01 import mk_sparse
    except Exception as e:
        ctx.broken.append(f'implementation does not import: {e!r}'); return cm.finish(ctx, 'proof', '', ASSUME)
    def viol(sig, what, A, obs='', exp=''):
        ctx.violations.append({'sig': sig, 'what': what, 'input': {'A': [[a.t() for a in r] for r in A]}, 'observed': str(obs)[:200], 'expected': str(exp)[:200], 'oracle': 'definitions evaluated in exact integer arithmetic'})
    rng = ctx.rng; fterms = []
    N = 150 if ctx.quick() else 2500
    for t in range(N):
        m, n, k = rng.randint(1, 4), rng.randint(1, 5), rng.randint(1, 4)
        A = rand_pyth(rng, m, n); B = rand_pyth(rng, m, n); Cm = rand_pyth(rng, n, k)
        An, Bn, Cn = qx.to_np(A), qx.to_np(B), qx.to_np(Cm)
        # definitions (exact: integer moduli)
        n1 = max([sum(imod(A[i][j]) for i in range(m)) for j in range(n)] + [0]); ninf = max([sum(imod(A[i][j]) for j in range(n)) for i in range(m)] + [0])
        f2 = qx.frob2(A)
        o1, oinf = utils.matrix_norm(An, 1), utils.matrix_norm(An, np.inf)
        if o1 != n1 or utils.induced_matrix_norm_1(An) != n1: viol('C15:norm1:def', 'induced 1-norm is not the maximum column sum of moduli', A, o1, n1)
        if oinf != ninf or utils.matrix_norm(An, 'inf') != ninf or utils.induced_matrix_norm_inf(An) != ninf: viol('C15:norminf:def', 'induced infinity-norm is not the maximum row sum of moduli', A, oinf, ninf)
        comp = [np.array(c, dtype=float) for c in qx.comps(A)]
        T = An.reshape(m, n, 1)
        fro = {'matrix_norm(fro)': utils.matrix_norm(An, 'fro'), 'matrix_norm(None)': utils.matrix_norm(An), 'matrix_norm(F)': utils.matrix_norm(An, 'F'),
               'matrix_norm(sparse)': utils.matrix_norm(mk_sparse(utils, A), 'fro'), 'normQ': utils.normQ(An), 'normQsparse': utils.normQsparse(*comp),
               'normQsparse(sparse)': utils.normQsparse(*[sparse.csr_matrix(c) for c in comp]), 'tensor_frobenius_norm': tensor.tensor_frobenius_norm(T)}
        root = math.isqrt(f2)
        for name, v in fro.items():
            ok = (v == root) if root * root == f2 else abs(v * v - f2) <= 8e-15 * max(f2, 1)
            if not ok: viol(f'C15:frob:def:{name}', f'{name} is not the root of the sum of squared moduli', A, v, f'sqrt({f2})')
        if len({float(v) for v in fro.values()}) != 1: viol('C15:frob:entry-points', 'Frobenius entry points disagree on the same data', A, fro)
        # same data, other order: every entry point again after the tensor norm has been evaluated; the data must be untouched
        again = {'matrix_norm(fro)': utils.matrix_norm(An, 'fro'), 'normQ': utils.normQ(An), 'tensor_frobenius_norm': tensor.tensor_frobenius_norm(T), 'normQsparse': utils.normQsparse(*[np.ascontiguousarray(quaternion.as_float_array(An)[..., c]) for c in (0, 1, 2, 3)])}
        if any(float(again[k2]) != float(fro[k2]) for k2 in again) or not qx.eq(qx.from_np(An), A):
            viol('C15:frob:entry-points:order', 'Frobenius entry points disagree when evaluated in another order on the same array (or the array was modified by a norm)', A, again, {k2: fro[k2] for k2 in again})
        ea = tensor.tensor_entrywise_abs(T)[..., 0]
        if ea.tolist() != [[float(imod(a)) for a in r] for r in A]: viol('C15:entrywise_abs', 'tensor_entrywise_abs is not the modulus', A)
        # norm axioms on the implementation (moduli are integers, so sums are exact; tiny slack for sqrt in Frobenius)
        c = rng.choice([-3.0, 0.5, 2.0, -0.25, 0.0])
        for name, f, slack in (('1', lambda X: utils.matrix_norm(X, 1), 0.0), ('inf', lambda X: utils.matrix_norm(X, np.inf), 0.0), ('fro', lambda X: utils.matrix_norm(X, 'fro'), 1e-12), ('2', lambda X: utils.matrix_norm(X, 2), 1e-10)):
            fa, fb, fc = f(An), f(Bn), f(Cn)
            if abs(f(c * An) - abs(c) * fa) > slack * (1 + fa) + (1e-13 * fa if name in ('1', 'inf') else 0): viol(f'C15:norm{name}:homogeneous', f'||cA||_{name} != |c| ||A||_{name}', A, f(c * An), abs(c) * fa)
            if f(An + Bn) > fa + fb + slack * (1 + fa + fb) + 1e-12 * (fa + fb): viol(f'C15:norm{name}:triangle', f'triangle inequality violated for ||.||_{name}', A, f(An + Bn), fa + fb)
            if f(utils.quat_matmat(An, Cn)) > fa * fc * (1 + 1e-12) + slack: viol(f'C15:norm{name}:submultiplicative', f'||AB||_{name} > ||A||_{name} ||B||_{name}', A, f(utils.quat_matmat(An, Cn)), fa * fc)
        from .c02 import rexp_ref
        sref = float(np.linalg.svd(np.array([[float(v) for v in row] for row in rexp_ref(A)]), compute_uv=False)[0]) if m * n else 0.0
        for nm2, v2 in (('matrix_norm(2)', utils.matrix_norm(An, 2)), ('spectral_norm_2', utils.spectral_norm_2(An)), ('matrix_norm(A^H, 2)', utils.matrix_norm(utils.quat_hermitian(An), 2))):
            if abs(float(v2) - sref) > 1e-10 * max(1.0, sref): viol(f'C15:norm2:def:{nm2}', f'{nm2} is not the largest singular value (independent real embedding)', A, v2, sref)
        n2 = utils.matrix_norm(An, 2); nf = fro['matrix_norm(fro)']
        rk = utils.rank(An)
        if n2 > nf * (1 + 1e-12) or nf > math.sqrt(max(rk, 1)) * n2 * (1 + 1e-10) + 1e-12: viol('C15:2-F-rank', '||A||_2 <= ||A||_F <= sqrt(rank) ||A||_2 violated', A, (n2, nf, rk))
        if n2 * n2 > o1 * oinf * (1 + 1e-10) + 1e-12: viol('C15:2-1-inf', '||A||_2^2 <= ||A||_1 ||A||_inf violated', A, (n2, o1, oinf))
        ctx.count(('norms', [a.t() for r in A for a in r], m, n), True, sample={'A': [[a.t() for a in r] for r in A], 'norm1': n1, 'norminf': ninf, 'frob2': f2} if t == 3 else None)
        if abs(nf * nf - f2) <= 8e-15 * max(f2, 1):
            fterms.append(f'({m}%nat, {n}%nat, ' + ', '.join(cm.zmat_lit(cc) for cc in qx.comps(A)) + f', {f2})')
    from .c02 import rexp_ref as _rexp
    for n in (1, 2, 3, 4):
        G = qx.rand_int(rng, n, n, -3, 3); PD = qx.add(qx.mm(G, qx.herm(G)), qx.eye(n)); Hi = qx.add(G, qx.herm(G))
        for cls, Hq in (('positive-definite', PD), ('negative-definite', qx.scale(-1, PD)), ('indefinite', Hi), ('negated-indefinite', qx.scale(-1, Hi)), ('negative-scalar', qx.scale(-2, qx.eye(n)))):
            Hn = qx.to_np(Hq); sref = float(np.linalg.svd(np.array([[float(v) for v in row] for row in _rexp(Hq)]), compute_uv=False)[0])
            for nm2, v2 in (('matrix_norm(2)', utils.matrix_norm(Hn, 2)), ('spectral_norm_2', utils.spectral_norm_2(Hn))):
                if not abs(float(v2) - sref) <= 1e-10 * max(1.0, sref): viol(f'C15:norm2:def:hermitian:{cls}', f'{nm2} of a {cls} Hermitian matrix is not its largest singular value', Hq, v2, sref)
            ctx.count(('norm2-hermitian', n, cls), True)
    # larger matrices (both dimensions above any plausible sketch width), scaled permutations with nearly equal moduli included: the 2-norm against an
    # independent largest singular value, and the same value when asked twice
    for (m, n), kind in (((16, 16), 'integer'), ((13, 20), 'integer'), ((20, 13), 'integer'), ((24, 24), 'scaled-permutation')) if ctx.quick() else (((16, 16), 'integer'), ((13, 20), 'integer'), ((20, 13), 'integer'), ((24, 24), 'scaled-permutation'), ((28, 20), 'integer'), ((32, 32), 'integer'), ((40, 40), 'scaled-permutation')):
        if kind == 'integer': Ab = qx.to_np(qx.rand_int(rng, m, n, -3, 3))
        else:
            perm = list(range(n)); rng.shuffle(perm); Ab = np.zeros((m, n), dtype=np.quaternion)
            for i in range(m): Ab[i, perm[i]] = quaternion.quaternion(1.0 - 0.1 * i / m, 0, 0, 0) * quaternion.quaternion(0.5, 0.5, 0.5, -0.5)
            Ab[0, perm[0]] = quaternion.quaternion(0.5, 0.5, 0.5, -0.5)          # the largest modulus, exactly 1
        sref = float(np.linalg.svd(utils.real_expand(Ab), compute_uv=False)[0])
        inp = {'shape': [m, n], 'class': kind}
        v1 = float(utils.matrix_norm(Ab, 2)); v2 = float(utils.spectral_norm_2(Ab)); v3 = float(utils.matrix_norm(Ab, 2))
        if abs(v1 - sref) > 1e-9 * sref or abs(v2 - sref) > 1e-9 * sref: viol('C15:norm2:def:large', f'the 2-norm of a {m} x {n} matrix is not its largest singular value (relative deviation {max(abs(v1 - sref), abs(v2 - sref)) / sref:.1e})', qx.from_np(Ab), (v1, v2), sref)
        if v1 != v3: viol('C15:norm2:repeatable', 'matrix_norm(A, 2) returns different values for the same matrix', qx.from_np(Ab), v1, v3)
        ctx.count(('norm2-large', m, n, kind), True)
    # dispatch: accepted spellings reach the routine, unknown ones are rejected
    A = rand_pyth(rng, 2, 3); An = qx.to_np(A)
    for o in ('nuc', 'Frobenius', 3, -1, 'two', 0, 'INF', '1', 'FRO'):
        try: utils.matrix_norm(An, o); viol('C15:dispatch:unknown', f'matrix_norm accepted the unknown norm type {o!r}', A)
        except ValueError: pass
        ctx.count(('dispatch', repr(o)), True)
    if info is not None and fterms:
        res = cm.run_cases(ctx, 'cases_frob', HEADER, fterms, 'check_frob', shard=300)
        if res is not None:
            ctx.cov['traces_validated_against_impl'] += len(res)
            bad = [i for i, r in enumerate(res) if not r]
            if bad: ctx.broken.append(f'generated Frobenius model and implementation disagree on {len(bad)} case(s), first: {fterms[bad[0]][:300]}')
    _A = qx.to_np(rand_pyth(rng, 3, 4))
    for _o in (1, np.inf, 'fro', 2):
        cm.layout_sweep(ctx, qx, 'C15', f'matrix_norm({_o})', lambda X, _o=_o: utils.matrix_norm(X, _o), _A, {'shape': [3, 4], 'ord': str(_o)})
    ctx.cov['rule'] = ('random matrices (shapes up to 4x5, rectangular included) whose entries have integer moduli (so 1-/inf-norms and most Frobenius norms are exact in binary64): every definition compared exactly, '
                       'all eight Frobenius entry points against each other and against the generated radicand, norm axioms on pairs/triples, spectral-vs-Frobenius-vs-rank and 2-1-inf inequalities, unknown norm spellings. Distinct = new input.')
    return cm.finish(ctx, 'proof', '', ASSUME)

ASSUME = ['norm axioms of the spectral norm and ||A||_2^2 <= ||A||_1 ||A||_inf are validated numerically only (they need the variational characterisation of the largest singular value)',
          'the induced norms are hand-modelled (two nested loops over moduli); tied to the code by exact comparison on integer-modulus inputs',
          'theorems over R use the standard-library real-number axioms']
