"""C16: Givens QR of Hessenberg matrices and triangular solves."""
import os, sys, math, itertools
from fractions import Fraction
from . import common as cm
from . import qexact as qx
from .qexact import Q

def fr_dy(x):
    """float -> (mantissa, exponent) with x = m * 2^e exactly"""
    x = float(x)
    if x == 0: return (0, 0)
    m, e = math.frexp(x); m = int(m * (1 << 53)); e -= 53
    while m % 2 == 0: m //= 2; e += 1
    return (m, e)
def dq_lit(c):
    parts = []
    for v in c:
        m, e = fr_dy(v); parts += [cm.zlit(m), cm.zlit(e)]
    return '(dq ' + ' '.join(parts) + ')'
def dmat(M): return '[' + '; '.join('[' + '; '.join(dq_lit(q) for q in row) + ']' for row in M) + ']'
def dyad_lit(v):
    m, e = fr_dy(v); return f'(fx_dyad {cm.zlit(m)} {cm.zlit(e)})'

HEADER_G = """From Coq Require Import ZArith List Bool Arith. Import ListNotations.
From QV Require Import FOps.
From QVM Require Import Givens.
Open Scope Z_scope.
Definition EPS := fx_dyad 1 (-52).
Definition ATOL := fx_dyad 6189700196426902 (-79).   (* 1e-8 *)
Definition K := 36.     (* agreement to 2^-36 ~ 1.5e-11 relative *)
(* (x1, x2, q1, q2, q3, q4) *)
Definition check_giv (c : fq FxOps * fq FxOps * fq FxOps * fq FxOps * fq FxOps * fq FxOps) : bool :=
  let '(x1, x2, a1, a2, a3, a4) := c in
  let '(q1, q2, q3, q4) := ggivens FxOps EPS x1 x2 in
  fxq_close K q1 a1 && fxq_close K q2 a2 && fxq_close K q3 a3 && fxq_close K q4 a4.
(* (m, n, H, W, R) *)
Definition check_hess (c : nat * nat * list (list (fq FxOps)) * list (list (fq FxOps)) * list (list (fq FxOps))) : bool :=
  let '(m, n, H, W, R) := c in
  let '(Wm, Rm) := hessqr FxOps EPS ATOL m n (fof H) in
  fxm_close K m m Wm W && fxm_close K m n Rm R.
Definition check_grs (c : fq FxOps * fq FxOps) : bool := let '(g, u) := c in fxq_close K (grs FxOps ATOL g) u.
"""
HEADER_T = """From Coq Require Import ZArith QArith Qabs Qcanon List Bool Arith. Import ListNotations.
From QV Require Import CRing Sums Quat Mat.
From QVM Require Import TriSolve LUexec TriExec.
Definition qq (a b c d : Q) : quat QcR := @mkQ QcR (Q2Qc a) (Q2Qc b) (Q2Qc c) (Q2Qc d).
Definition closeq (a b : quat QcR) : bool :=
  let t x y := Qle_bool (Qabs (this x - this y)) ((1 # 1000000000) * (1 + Qabs (this y))) in
  t (qw a) (qw b) && t (qx a) (qx b) && t (qy a) (qy b) && t (qz a) (qz b).
Definition close_mat (r c : nat) (M : qmat QcR) (L : list (list (quat QcR))) : bool :=
  forallb (fun i => forallb (fun j => closeq (nth j (nth i L []) q0Q) (M i j)) (seq 0 c)) (seq 0 r).
Definition D30 : Qc := Q2Qc (1 # 1000000000000000000000000000000).
Definition EPSQ : Qc := Q2Qc (1 # 4503599627370496).
Definition TOL2 : Qc := Q2Qc (1 # 10000000000000000000000000000).
(* (kind, n, k, T, B, X): kind 0 = dense lower, 1 = dense upper, 2 = component-form upper (UtriangleQsparse) *)
Definition check_tri (c : nat * nat * nat * list (list (quat QcR)) * list (list (quat QcR)) * list (list (quat QcR))) : bool :=
  let '(kind, n, k, T, B, X) := c in
  match kind with
  | 0%nat => close_mat n k (solve_lower QcR (dinvQ D30) retabQ n k n (qof_listQ T) (qof_listQ B)) X
  | 1%nat => close_mat n k (solve_upper QcR (dinvQ D30) never_tiny retabQ n k n (qof_listQ T) (qof_listQ B)) X
  | _ => close_mat n k (solve_upper QcR (dinvQ EPSQ) (tinyQ2 TOL2) retabQ n k n (qof_listQ T) (qof_listQ B)) X
  end.
"""
def ql(q): return '(qq ' + ' '.join((f'({Fraction(c).numerator} # {Fraction(c).denominator})' if Fraction(c).numerator >= 0 else f'(({Fraction(c).numerator}) # {Fraction(c).denominator})') for c in q.t()) + ')'
def qmat_lit(A): return '[' + '; '.join('[' + '; '.join(ql(a) for a in r) + ']' for r in A) + ']'

def g_to_quats(G):
    """8x8 real block Realp([[q1,q3],[q2,q4]]) -> (q1,q2,q3,q4) as float 4-tuples (first block column)"""
    q = lambda r, c: tuple(float(G[2 * k + r, c]) for k in range(4))
    return q(0, 0), q(1, 0), q(0, 1), q(1, 1)

def run(ctx):
    cm.setup_impl_path()
    for b in cm.audit(cm.coq_sources() + [os.path.join(cm.ROOT, 'props', 'C16.v')]): ctx.broken.append('audit: ' + b)
    cm.prove(ctx, 'C16.v')
    try:
        import numpy as np, quaternion, utils, solver
    except Exception as e:
        ctx.broken.append(f'implementation does not import: {e!r}'); return cm.finish(ctx, 'proof', '', ASSUME)
    def viol(sig, what, inp, obs='', exp=''):
        ctx.violations.append({'sig': sig, 'what': what, 'input': inp, 'observed': str(obs)[:300], 'expected': str(exp)[:300], 'oracle': 'exact rational / float64 residuals of the defining equations'})
    rng = ctx.rng; rs = np.random.RandomState(1000 + ctx.seed)
    EPS = np.finfo(float).eps
    # ---- rotations -------------------------------------------------------------------------------------
    gterms = []
    pairs = []
    for _ in range(60 if ctx.quick() else 1000):
        x1 = rs.randint(-4, 5, 4).astype(float); x2 = rs.randint(-4, 5, 4).astype(float)
        kind = rng.choice(['generic', 'generic', 'x1zero', 'x2zero', 'bothzero', 'tiny', 'axis', 'scaled', 'equalnorm'])
        if kind == 'x1zero': x1[:] = 0
        if kind == 'x2zero': x2[:] = 0
        if kind == 'bothzero': x1[:] = 0; x2[:] = 0
        if kind == 'tiny': x1 = x1 * 1e-17; x2 = x2 * 1e-17
        if kind == 'axis': x1 = np.eye(4)[rng.randrange(4)] * rng.choice([1, -2]); x2 = np.eye(4)[rng.randrange(4)] * rng.choice([3, -1])
        if kind == 'scaled': s = 2.0 ** rng.randint(-30, 30); x1 = x1 * s; x2 = x2 * s
        if kind == 'equalnorm': x2 = np.roll(x1, 1) * rng.choice([1, -1])
        pairs.append((kind, x1, x2))
    for kind, x1, x2 in pairs:
        inp = {'x1': x1.tolist(), 'x2': x2.tolist(), 'class': kind}
        try: G = utils.ggivens(x1.copy(), x2.copy())
        except Exception as e: viol('C16:ggivens:raises', f'ggivens raised {e!r}', inp); continue
        t = float(np.linalg.norm(np.concatenate([x1, x2])))
        if np.max(np.abs(G.T @ G - np.eye(8))) > 1e-12: viol(f'C16:ggivens:unitary:{kind}', 'generated rotation is not unitary', inp, float(np.max(np.abs(G.T @ G - np.eye(8)))))
        v = np.concatenate([[x1[k], x2[k]] for k in range(4)])             # Realp ordering: component blocks of the 2-vector
        img = G.T @ v
        want = np.zeros(8); want[0] = t
        if t > EPS and np.max(np.abs(img - want)) > 1e-12 * max(t, 1): viol(f'C16:ggivens:maps:{kind}', 'G^T [x1; x2] is not (norm, 0)', inp, img.tolist(), want.tolist())
        if t <= EPS and not np.array_equal(G, np.eye(8)): viol('C16:ggivens:degenerate', 'degenerate pair does not give the identity', inp)
        ctx.count(('giv', x1.tobytes(), x2.tobytes()), True, sample=inp if kind == 'equalnorm' and len(ctx.cov['samples']) < 2 else None)
        n1, n2 = np.linalg.norm(x1), np.linalg.norm(x2)
        if t > 1e-12 and abs(n1 - n2) > 1e-9 * t or (kind == 'bothzero'):
            qs = g_to_quats(G)
            gterms.append(f'({dq_lit(x1)}, {dq_lit(x2)}, ' + ', '.join(dq_lit(q) for q in qs) + ')')
        else: ctx.cov['discarded'] += 1      # branch |q1| < |q2| decided by rounding, or norm near eps
    # GRSGivens, both call forms
    rterms = []
    for _ in range(40 if ctx.quick() else 400):
        g = rs.randint(-4, 5, 4).astype(float)
        kind = rng.choice(['generic', 'real', 'konly', 'jonly', 'tinyimag', 'zero'])
        if kind == 'real': g[1:] = 0
        if kind == 'konly': g[1:3] = 0; g[3] = g[3] or 2.0
        if kind == 'jonly': g[1] = 0; g[3] = 0; g[2] = g[2] or -3.0
        if kind == 'tinyimag': g[1:] = g[1:] * 1e-10
        if kind == 'zero': g[:] = 0
        inp = {'g': g.tolist(), 'class': kind}
        Ga = utils.GRSGivens(g.copy()); Gb = utils.GRSGivens(*[float(v) for v in g])
        if not np.array_equal(Ga, Gb): viol(f'C16:grs:forms:{kind}', 'vector form and 4-argument form of GRSGivens disagree', inp, Ga.tolist(), Gb.tolist())
        if np.max(np.abs(Ga.T @ Ga - np.eye(4))) > 1e-12: viol(f'C16:grs:unitary:{kind}', 'GRSGivens is not unitary', inp)
        img = Ga.T @ g
        if np.max(np.abs(g[1:])) > 1e-8 and (np.max(np.abs(img[1:])) > 1e-12 * np.linalg.norm(g) or abs(img[0] - np.linalg.norm(g)) > 1e-12 * np.linalg.norm(g)):
            viol(f'C16:grs:maps:{kind}', 'GRSGivens does not map the quaternion to its modulus', inp, img.tolist())
        ctx.count(('grs', g.tobytes()), True)
        if kind != 'tinyimag' or True:
            u = tuple(float(Ga[k, 0]) for k in range(4))
            if max(abs(v) for v in g[1:]) > 2e-8 or max(abs(v) for v in g[1:]) < 0.5e-8: rterms.append(f'({dq_lit(g)}, {dq_lit(u)})')
    # ---- Hessenberg QR ---------------------------------------------------------------------------------
    hterms = []
    kmax = 4 if ctx.quick() else 7
    for k in range(1, kmax + 1):
        pats = ['generic', 'zerosub', 'zerocol', 'identity-like', 'integer', 'lastzero']
        for pat in pats:
            for rep in range(2 if ctx.quick() else 6):
                m, n = k + 1, k
                Hq = np.zeros((m, n, 4))
                for i in range(m):
                    for j in range(n):
                        if i <= j + 1: Hq[i, j] = rs.randint(-3, 4, 4) if pat != 'generic' else np.round(rs.randn(4) * 4) / 4
                if pat == 'zerosub':
                    for s0 in rng.sample(range(k), max(1, k // 2)): Hq[s0 + 1, s0] = 0
                if pat == 'zerocol': Hq[:, rng.randrange(n)] = 0
                if pat == 'identity-like':
                    Hq[:] = 0
                    for i in range(n): Hq[i, i, 0] = 1.0
                if pat == 'lastzero': Hq[m - 1, n - 1] = 0
                Hess = np.vstack([Hq[..., c] for c in range(4)])
                inp = {'k': k, 'pattern': pat, 'H': Hq.tolist()}
                try: U, R = utils.Hess_QR_ggivens(Hess.copy())
                except Exception as e: viol(f'C16:hessqr:raises:{pat}', f'Hess_QR_ggivens raised {e!r}', inp); continue
                if not cm.all_finite(U, R): viol(f'C16:hessqr:nonfinite:{pat}', 'Hess_QR_ggivens returned NaN / inf', inp); continue
                W4 = utils.A2A0123(U); R4 = utils.A2A0123(R)
                Wq = quaternion.as_quat_array(np.stack(W4, axis=-1)); Rq = quaternion.as_quat_array(np.stack(R4, axis=-1)); Hn = quaternion.as_quat_array(Hq.copy())
                sc = max(1.0, float(np.max(np.abs(Hq))))
                e1 = utils.quat_frobenius_norm(utils.quat_matmat(Wq, Rq) - Hn)
                e2 = utils.quat_frobenius_norm(utils.quat_matmat(utils.quat_hermitian(Wq), Wq) - utils.quat_eye(m))
                low = max([abs(Rq[i, j]) for i in range(m) for j in range(n) if i > j] or [0.0])
                if e1 > 1e-11 * sc * m: viol(f'C16:hessqr:WR=H:{pat}', 'W R != H', inp, e1)
                if e2 > 1e-11 * m: viol(f'C16:hessqr:unitary:{pat}', 'W is not unitary', inp, e2)
                if low > 1e-11 * sc: viol(f'C16:hessqr:upper:{pat}', 'R is not upper triangular', inp, low)
                ctx.count(('hess', Hq.tobytes()), True, sample={'k': k, 'pattern': pat} if rep == 0 and k == 2 else None)
                # model comparison only when no rotation is decided by a near-tie (recomputed from the float run: moduli of the pair differ)
                hterms.append((f'({m}%nat, {n}%nat, {dmat(Hq.reshape(m, n, 4).tolist())}, {dmat(quaternion.as_float_array(Wq).tolist())}, {dmat(quaternion.as_float_array(Rq).tolist())})', Hq))
    def tie_free(Hq):
        """re-run the sweep in floats and reject inputs where |q1| ~ |q2| or the pair norm is near eps at some step"""
        m, n = Hq.shape[:2]; H = quaternion.as_quat_array(Hq.copy())
        for s in range(m - 1):
            a, b = abs(H[s, s]), abs(H[s + 1, s]); t = math.hypot(a, b)
            if t <= 1e-9: return t == 0.0 and False
            if abs(a - b) <= 1e-7 * t: return False
            G = utils.ggivens(quaternion.as_float_array(H[s, s]), quaternion.as_float_array(H[s + 1, s]))
            q1, q2, q3, q4 = [np.quaternion(*q) for q in g_to_quats(G)]
            for c in range(s, n):
                h0, h1 = H[s, c], H[s + 1, c]
                H[s, c] = q1.conjugate() * h0 + q2.conjugate() * h1; H[s + 1, c] = q3.conjugate() * h0 + q4.conjugate() * h1
        last = quaternion.as_float_array(H[m - 1, n - 1])[1:]
        return not (0.3e-8 < np.max(np.abs(last)) < 3e-8)
    hsel = [t for (t, Hq) in hterms if tie_free(Hq)]; ctx.cov['discarded'] += len(hterms) - len(hsel)
    # ---- triangular solves -----------------------------------------------------------------------------
    tterms = []
    for _ in range(24 if ctx.quick() else 400):
        n = rng.randint(1, 5); k = rng.randint(1, 4)
        uniform = rng.random() < 0.7         # True: whole rows scaled (well conditioned); False: only the diagonal scaled (ill conditioned, residual oracle only)
        T = qx.rand_int(rng, n, n, -3, 3); sc = [Fraction(2) ** rng.choice([0, 0, 20, -20, 7, -9]) for _ in range(n)]
        single_axis = (_ % 3 == 1)           # every third system: each diagonal entry lies on ONE axis (1, i, j or k)
        for i in range(n):
            while T[i][i].is_zero(): T[i][i] = Q(*[rng.randint(-3, 3) for _ in range(4)])
            if single_axis:
                cval = rng.choice([-3, -2, -1, 1, 2, 3]); ax = (i + _) % 4
                T[i][i] = Q(*[cval if a == ax else 0 for a in range(4)])
            if uniform: T[i] = [a * sc[i] for a in T[i]]
            else: T[i][i] = T[i][i] * sc[i]
        X = qx.rand_int(rng, n, k, -3, 3)
        for kind in (0, 1, 2):
            Tk = [[(T[i][j] if ((j <= i) if kind == 0 else (j >= i)) else Q()) for j in range(n)] for i in range(n)]
            Bprod = qx.mm(Tk, X)
            rhs_list = [('product', Bprod)]
            # right-hand sides with exactly zero rows next to non-zero ones (unit vectors: the columns of the inverse; one interior row removed)
            rhs_list.append(('unit-vectors', [[(Q(1) if i == c else Q()) for c in range(k)] for i in range(n)]))
            if n >= 3: rhs_list.append(('zero-interior-row', [([Q() for _ in range(k)] if i == n // 2 else Bprod[i]) for i in range(n)]))
            if n >= 2: rhs_list.append(('only-first-row' if kind == 0 else 'only-last-row', [(Bprod[i] if i == (0 if kind == 0 else n - 1) else [Q() for _ in range(k)]) for i in range(n)]))
            for rname, Bm in rhs_list:
                inp = {'kind': ['lower', 'upper', 'component-form upper'][kind], 'n': n, 'rhs': k, 'rhs pattern': rname, 'diag_scales': [str(s) for s in sc]}
                try:
                    if kind == 0: Xo = qx.from_np(solver._solve_lower_triangular_quat(qx.to_np(Tk), qx.to_np(Bm)))
                    elif kind == 1: Xo = qx.from_np(solver._solve_upper_triangular_quat(qx.to_np(Tk), qx.to_np(Bm)))
                    else:
                        Rc = [np.array(c, dtype=float) for c in qx.comps(Tk)]; bc = [np.array(c, dtype=float) for c in qx.comps(Bm)]
                        o = utils.UtriangleQsparse(*Rc, *bc); Xo = qx.from_comps(*[qx.real_from_np(c) for c in o])
                except Exception as e:
                    viol(f'C16:trisolve:{inp["kind"]}:raises', f'triangular solve raised {e!r} ({k} right-hand side(s))', inp); continue
                Rm = qx.sub(qx.mm(Tk, Xo), Bm)
                # row-wise relative residual: every equation is solved relative to ITS right-hand side
                res = Fraction(0); scale = 1
                for i in range(n):
                    ri = max(abs(c) for q in Rm[i] for c in q.t()); bi = max([abs(c) for q in Bm[i] for c in q.t()] + [abs(c) * max(abs(cc) for xr in Xo for qq in xr for cc in qq.t()) for q in Tk[i] for c in q.t()])
                    if bi > 0: res = max(res, Fraction(ri) / Fraction(bi))
                # the eps-regularised inverse of the component form has relative defect eps / |t_ii|^2 per row
                allowed = Fraction(1, 10 ** 9) if kind < 2 else max(Fraction(1, 10 ** 9), max(Fraction(EPS) / T[i][i].n2() for i in range(n)) * 4 * n * n)
                if res > allowed * scale:
                    sig = f'C16:trisolve:{inp["kind"]}:residual'
                    if kind == 2:
                        # is the output what exact backward substitution WITH the +eps regularisation gives?  then the defect is the documented formula's
                        Xe = [[None] * k for _ in range(n)]
                        for i in range(n - 1, -1, -1):
                            d = Tk[i][i]; dinv = d.conj() * (1 / (Fraction(d.n2()) + Fraction(EPS)))
                            for c in range(k):
                                acc = Bm[i][c]
                                for j in range(i + 1, n): acc = acc - Tk[i][j] * Xe[j][c]
                                Xe[i][c] = dinv * acc
                        if qx.maxabs(qx.sub(Xe, Xo)) <= Fraction(1, 10 ** 6) * max(1, qx.maxabs(Xe)): sig += ':eps-regularisation'
                    viol(sig, f'T X != B (relative residual {float(res / scale):.2e}, {k} right-hand side(s), diagonal scale {float(sc[0]):.1e})', inp, float(res / scale))
                ctx.count(('tri', kind, [a.t() for r in Tk for a in r], k), True)
                if uniform: tterms.append(f'({kind}%nat, {n}%nat, {k}%nat, {qmat_lit(Tk)}, {qmat_lit(Bm)}, {qmat_lit(Xo)})')
                else: ctx.cov['discarded'] += 1     # mixed diagonal scales: ill-conditioned, residual oracle only
    # deterministic probe of the eps-regularised inverse: tiny diagonal, O(1) off-diagonal
    Tp = [[Q(Fraction(1, 2 ** 20)), Q(1)], [Q(), Q(0, Fraction(1, 2 ** 20))]]; Xp = [[Q(1)], [Q(0, 1)]]; Bp = qx.mm(Tp, Xp)
    o = utils.UtriangleQsparse(*[np.array(c, dtype=float) for c in qx.comps(Tp)], *[np.array(c, dtype=float) for c in qx.comps(Bp)])
    Xo = qx.from_comps(*[qx.real_from_np(c) for c in o]); res = qx.maxabs(qx.sub(qx.mm(Tp, Xo), Bp))
    if res > Fraction(1, 10 ** 9): viol('C16:trisolve:component-form upper:residual:eps-regularisation', f'T X != B for T = [[2^-20, 1], [0, 2^-20 i]] (residual {float(res):.2e})', {'T': 'diag 2^-20, off-diagonal 1'}, float(res))
    ctx.count(('tri-eps-probe',), True)
    # UtriangleQsparse zero-diagonal branch and size check
    Rc = [np.triu(rs.randint(1, 4, (3, 3)).astype(float)) for _ in range(4)]
    for c in Rc: c[1, 1] = 0.0
    bc = [rs.rand(3, 1) for _ in range(4)]
    import io, contextlib
    with contextlib.redirect_stdout(io.StringIO()): o = utils.UtriangleQsparse(*Rc, *[b.copy() for b in bc])
    if any(abs(float(c[1, 0])) != 0 for c in o): viol('C16:trisolve:zero-diagonal', 'zero diagonal entry does not give a zero solution row', {})
    ctx.count(('tri-zero-diag',), True)
    for name, hdr, terms, fn, shard in (('giv', HEADER_G, gterms, 'check_giv', 200), ('grs', HEADER_G, rterms, 'check_grs', 200), ('hess', HEADER_G, hsel, 'check_hess', 12), ('tri', HEADER_T, tterms, 'check_tri', 6)):
        if not terms: continue
        res = cm.run_cases(ctx, 'cases_' + name, hdr, terms, fn, shard=shard)
        if res is not None:
            ctx.cov['traces_validated_against_impl'] += len(res)
            bad = [i for i, r in enumerate(res) if not r]
            if bad: ctx.broken.append(f'{name} model and implementation disagree on {len(bad)} of {len(res)} case(s), first: {terms[bad[0]][:400]}')
    ctx.cov['rule'] = (f'rotations: integer / axis / zero / tiny / 2^+-30-scaled / equal-norm pairs; GRSGivens in both call forms; Hessenberg QR for k = 1..{kmax} over six zero patterns; '
                       'triangular solves (dense lower, dense upper, component form) with diagonal moduli scaled by 2^+-20 and 1..4 right-hand sides; exact / float64 residuals of the defining equations and '
                       'the models (fixed point 2^-160 for the sqrt code, Qc for the solves) within 2^-36 resp. 1e-9; discarded = rotation branch decided by a near-tie.')
    return cm.finish(ctx, 'proof', '', ASSUME)

ASSUME = ['the Hessenberg sweep (W R = H, W unitary, R upper) is tied by correspondence and checked by the oracle on outputs; the theorem covers the single rotation and the substitutions',
          'fixed-point (2^-160) execution stands for exact real arithmetic in the model of the sqrt code', 'theorems over R use the standard-library real axioms']
