"""C17: QSLST blur / restoration: centred periodic convolution, Tikhonov normal equations, matrix builders."""
import os, sys, itertools, math
from fractions import Fraction
from . import common as cm

HEADER = """From Coq Require Import ZArith List Bool Arith. Import ListNotations.
From QV Require Import CRing Sums Quat Mat NumpySem Exec.
From B Require Import Gen_C17.
Open Scope Z_scope.
(* (H, W, kH, kW, psf, pad) *)
Definition check_pad (c : nat * nat * nat * nat * zmat * zmat) : bool :=
  let '(h, w, kh, kw, psf, pad) := c in rm_eqb h w (gen_pad_psf ZR h w kh kw (of_list psf)) pad.
"""
HEADER_S = """From Coq Require Import ZArith List Bool Arith. Import ListNotations.
From QV Require Import CRing Sums Quat Mat NumpySem Exec.
From QVT Require Import Conv Tikhonov Bccb.
From B Require Import Gen_C17 Gen_C17s.
Open Scope Z_scope.
(* (H, W, kH, kW, psf, A returned by _build_bccb_matrix) *)
Definition check_dense (c : nat * nat * nat * nat * zmat * zmat) : bool :=
  let '(h, w, kh, kw, psf, A) := c in rm_eqb (h * w) (h * w) (gen_build_bccb_matrix ZR h w kh kw (of_list psf)) A.
Definition check_csr (c : nat * nat * nat * nat * zmat * zmat) : bool :=
  let '(h, w, kh, kw, psf, A) := c in rm_eqb (h * w) (h * w) (gen_build_bccb_csr ZR (Z.eqb 0) h w kh kw (of_list psf)) A.
"""

def pad_ref(psf, H, W):
    kH, kW = len(psf), len(psf[0]); out = [[0] * W for _ in range(H)]
    for u in range(kH):
        for v in range(kW):
            out[(u - kH // 2) % H][(v - kW // 2) % W] += psf[u][v]
    return out
def cconv_ref(h, x):
    H, W = len(x), len(x[0])
    return [[sum(h[a][b] * x[(i - a) % H][(j - b) % W] for a in range(H) for b in range(W)) for j in range(W)] for i in range(H)]
def bccb_ref(h):
    H, W = len(h), len(h[0]); N = H * W
    return [[h[(r // W - c // W) % H][(r % W - c % W) % W] for c in range(N)] for r in range(N)]

def run(ctx):
    cm.setup_impl_path(); sys.path.insert(0, os.path.join(cm.ROOT, 'qtrans'))
    sys.path.insert(0, os.path.join(cm.REPO, 'applications', 'image_deblurring'))
    for b in cm.audit(cm.coq_sources() + [os.path.join(cm.ROOT, 'props', 'C17.v'), os.path.join(cm.ROOT, 'props', 'C17s.v')]): ctx.broken.append('audit: ' + b)
    info = None
    try:
        import gen_c17
        txt, info = gen_c17.generate(cm.REPO)
        open(os.path.join(ctx.build, 'Gen_C17.v'), 'w').write(txt)
        ctx.obligations.append(('translate:qslst.py(_pad_psf)', True, ''))
    except Exception as e:
        ctx.obligations.append(('translate', False, repr(e)))
        ctx.broken.append(f'qtrans cannot translate _pad_psf any more: {e!r}')
    if info is not None: cm.prove(ctx, 'C17.v', ['Gen_C17.v'])
    if info is not None:
        try:
            import gen_c17s
            txt, _ = gen_c17s.generate(cm.REPO)
            open(os.path.join(ctx.build, 'Gen_C17s.v'), 'w').write(txt)
            ctx.obligations.append(('translate:qslst.py(apply_blur_fft,qslst_restore_fft,qslst_restore_matrix)', True, ''))
            cm.prove(ctx, 'C17s.v', ['Gen_C17s.v'])
        except Exception as e:
            ctx.obligations.append(('translate:restoration', False, repr(e)))
            ctx.broken.append(f'qtrans cannot translate apply_blur_fft / qslst_restore_fft / qslst_restore_matrix any more: {e!r}')
    try:
        import numpy as np, qslst
        import script_image_deblurring as app
    except Exception as e:
        ctx.broken.append(f'implementation does not import: {e!r}'); return cm.finish(ctx, 'proof', '', ASSUME)
    def viol(sig, what, inp, obs='', exp=''):
        ctx.violations.append({'sig': sig, 'what': what, 'input': inp, 'observed': str(obs)[:300], 'expected': str(exp)[:300],
                               'oracle': 'exact centred periodic convolution / explicit BCCB matrix of the centred kernel'})
    rng = ctx.rng
    # 13 and 17 have no small prime factor (an FFT 'fast length' would differ from the image size there)
    sizes = [(1, 1), (2, 3), (3, 3), (4, 5), (5, 6), (13, 2), (2, 17)] if ctx.quick() else [(h, w) for h in range(1, 8) for w in range(1, 9) if h * w <= 42] + [(13, 2), (2, 17), (13, 3), (3, 19)]
    pterms = []; dterms = []; cterms = []
    for (H, W) in sizes:
        ks = [(kh, kw) for kh in range(1, H + 1) for kw in range(1, W + 1)]
        if ctx.quick() and len(ks) > 12: ks = sorted(set(ks[:1] + rng.sample(ks, 9) + [(H, W), (min(3, H), min(3, W)), (1, W), (H, 1), (min(2, H), min(5, W))]))
        for (kH, kW) in ks:
            psf_i = [[1 + u * kW + v for v in range(kW)] for u in range(kH)]      # tagged, asymmetric
            psf = np.array(psf_i, dtype=float)
            psf_z = [list(r) for r in psf_i]; psf_z[-1][-1] = 0
            inp = {'image': [H, W], 'kernel': [kH, kW], 'psf': 'psf[u][v] = 1 + u*kW + v'}
            try: pad = qslst._pad_psf(psf, (H, W))
            except Exception as e: viol('C17:pad:raises', f'_pad_psf raised {e!r}', inp); continue
            ref = pad_ref(psf_i, H, W)
            if pad.tolist() != [[float(v) for v in r] for r in ref]:
                viol('C17:pad:centre', 'the kernel is not centred on its middle tap with periodic wrap', inp, pad.tolist(), ref)
            pterms.append(f'({H}%nat, {W}%nat, {kH}%nat, {kW}%nat, {cm.zmat_lit(psf_i)}, {cm.zmat_lit(pad.astype(int).tolist())})')
            # blur: impulse response, mass, agreement with the exact convolution (integer image)
            img = np.array([[[rng.randint(-4, 4) for _ in range(4)] for _ in range(W)] for _ in range(H)], dtype=float)
            B = qslst.apply_blur_fft(img, psf)
            tol = 1e-9 * (1 + psf.sum() * 4)
            for c in range(4):
                want = cconv_ref(ref, img[..., c].astype(int).tolist())
                if np.max(np.abs(B[..., c] - np.array(want, dtype=float))) > tol:
                    viol('C17:blur:operator', f'apply_blur_fft differs from the centred periodic convolution (channel {c})', inp, B[..., c].tolist(), want); break
            p, q = rng.randrange(H), rng.randrange(W)
            imp = np.zeros((H, W, 4)); imp[p, q, 1] = 1.0
            R = qslst.apply_blur_fft(imp, psf)[..., 1]
            want = [[ref[(i - p) % H][(j - q) % W] for j in range(W)] for i in range(H)]
            if np.max(np.abs(R - np.array(want, dtype=float))) > tol: viol('C17:blur:impulse', f'impulse at {(p, q)} is not mapped to the centred PSF', inp, R.tolist(), want)
            if abs(B.sum() - psf.sum() * img.sum()) > tol * H * W * 40: viol('C17:blur:mass', 'total mass not preserved (times sum of PSF)', inp, B.sum(), psf.sum() * img.sum())
            ctx.count(('pad', H, W, kH, kW), True, sample=inp if (H, W, kH, kW) == (4, 5, 3, 3) else None)
            # explicit matrices
            if H * W <= 30:
                A = app._build_bccb_matrix(psf, H, W); Acsr = app._build_bccb_csr(psf, H, W).toarray()
                Aref = np.array(bccb_ref(ref), dtype=float)
                if not np.array_equal(A, Aref): viol('C17:builder:dense', 'dense BCCB builder is not the centred convolution operator', inp)
                if H * W <= 12 and np.array_equal(Acsr, np.round(Acsr)): cterms.append(f'({H}%nat, {W}%nat, {kH}%nat, {kW}%nat, {cm.zmat_lit(psf_z)}, {cm.zmat_lit(app._build_bccb_csr(np.array(psf_z, dtype=float), H, W).toarray().astype(int).tolist())})')
                if H * W <= 12 and float(np.max(np.abs(A))) < 2 ** 40 and np.array_equal(A, np.round(A)): dterms.append(f'({H}%nat, {W}%nat, {kH}%nat, {kW}%nat, {cm.zmat_lit(psf_i)}, {cm.zmat_lit(A.astype(int).tolist())})')
                if not np.array_equal(Acsr, Aref): viol('C17:builder:csr', 'sparse BCCB builder is not the centred convolution operator', inp)
                if not np.array_equal(A, Acsr): viol('C17:builder:agree', 'dense and sparse builders differ', inp)
                pn = psf / psf.sum(); An = Aref / psf.sum()
                for lam in ((1e-3, 1.0, 10.0) if not ctx.quick() else (1e-3, 1.0)):
                    Bq = qslst.apply_blur_fft(img, pn)
                    X = qslst.qslst_restore_fft(Bq, pn, lam)
                    if not cm.all_finite(Bq, X): viol('C17:nonfinite', 'blur or restoration returned NaN / inf', inp); continue
                    T = An.T @ An + lam * np.eye(H * W)
                    for c in range(4):
                        res = T @ X[..., c].reshape(-1) - An.T @ Bq[..., c].reshape(-1)
                        if np.max(np.abs(res)) > 1e-8 * (1 + np.max(np.abs(Bq))):
                            viol('C17:restore:normal-eq', f'FFT restoration does not solve (A^T A + lam I) X = A^T B for the documented operator (lam={lam})', inp, float(np.max(np.abs(res)))); break
                    Xm = qslst.qslst_restore_matrix(Bq, An, lam)
                    if np.max(np.abs(Xm - X)) > 1e-7 * (1 + np.max(np.abs(X))): viol('C17:restore:matrix-vs-fft', f'matrix path and FFT path give different restorations (lam={lam})', inp, float(np.max(np.abs(Xm - X))))
                    # linearity and channel independence
                    B2 = np.array([[[rng.randint(-3, 3) for _ in range(4)] for _ in range(W)] for _ in range(H)], dtype=float)
                    X2 = qslst.qslst_restore_fft(B2, pn, lam); X3 = qslst.qslst_restore_fft(2.5 * Bq + B2, pn, lam)
                    if np.max(np.abs(X3 - (2.5 * X + X2))) > 1e-9 * (1 + np.max(np.abs(X3))): viol('C17:restore:linear', 'restoration is not linear in B', inp)
                    B4 = Bq.copy(); B4[..., 2] = B2[..., 2]; X4 = qslst.qslst_restore_fft(B4, pn, lam)
                    if not all(np.array_equal(X4[..., c], X[..., c]) for c in (0, 1, 3)): viol('C17:restore:channels', 'channels are not restored independently', inp)
                # lambda -> 0 inverts the blur where it is invertible
                Hh = np.fft.fft2(np.array(ref, dtype=float) / psf.sum())
                if np.min(np.abs(Hh)) > 0.05:
                    X0 = qslst.qslst_restore_fft(qslst.apply_blur_fft(img, pn), pn, 0.0)
                    if np.max(np.abs(X0 - img)) > 1e-6 * (1 + np.max(np.abs(img))): viol('C17:restore:inverse', 'lambda = 0 does not invert an invertible blur', inp, float(np.max(np.abs(X0 - img))))
    # the contract under which the restoration theorems are stated for NumPy: fft2 / ifft2 are the transform pair of thm/DFT.v
    # (forward weights cos - i sin, inverse scaled by 1 / (H W)); compared with the defining double sums
    for (H, W) in [(1, 1), (1, 4), (2, 3), (3, 3), (4, 5)]:
        xs = np.array([[rng.randint(-5, 5) + 1j * rng.randint(-5, 5) for _ in range(W)] for _ in range(H)])
        wt = lambda u, v, sgn: np.array([[np.exp(sgn * 2j * np.pi * (u * i / H + v * j / W)) for j in range(W)] for i in range(H)])
        d = np.array([[np.sum(xs * wt(u, v, -1)) for v in range(W)] for u in range(H)])
        di = np.array([[np.sum(xs * wt(u, v, +1)) for v in range(W)] for u in range(H)]) / (H * W)
        if np.max(np.abs(np.fft.fft2(xs) - d)) > 1e-11 * (1 + np.max(np.abs(d))) or np.max(np.abs(np.fft.ifft2(xs) - di)) > 1e-11 * (1 + np.max(np.abs(di))):
            ctx.broken.append(f'numpy.fft.fft2 / ifft2 differ from the transform pair of thm/DFT.v on a {H}x{W} array (contract of the restoration theorems)')
        if qslst.fft2 is not np.fft.fft2 or qslst.ifft2 is not np.fft.ifft2:
            ctx.broken.append('quatica.qslst.fft2 / ifft2 are not numpy.fft.fft2 / ifft2')
        ctx.count(('dft-contract', H, W), True)
    # PSF generators have unit sum; symmetric Gaussian / motion kernels through the same operator check
    for radius, sigma in ((1, 0.8), (2, 1.5), (3, 1.0)):
        g = qslst.build_psf_gaussian(radius, sigma)
        if abs(g.sum() - 1) > 1e-12 or g.shape != (2 * radius + 1,) * 2: viol('C17:psf:gaussian', 'Gaussian PSF not normalised / wrong size', {'radius': radius, 'sigma': sigma})
        ctx.count(('gauss', radius, sigma), True)
    for length, ang in ((1, 0), (3, 0), (4, 30), (5, 45), (7, 90), (6, 135)):
        mpsf = qslst.build_psf_motion(length, ang)
        if abs(mpsf.sum() - 1) > 1e-12 or np.any(mpsf < 0): viol('C17:psf:motion', 'motion PSF not normalised', {'length': length, 'angle': ang})
        H, W = mpsf.shape[0] + 1, mpsf.shape[1] + 2
        imp = np.zeros((H, W, 4)); imp[1, 2, 0] = 1.0
        R = qslst.apply_blur_fft(imp, mpsf)[..., 0]
        refm = pad_ref(mpsf.tolist(), H, W)
        want = np.array([[refm[(i - 1) % H][(j - 2) % W] for j in range(W)] for i in range(H)])
        if np.max(np.abs(R - want)) > 1e-12: viol('C17:blur:impulse', 'motion kernel: impulse not mapped to the centred PSF', {'length': length, 'angle': ang})
        ctx.count(('motion', length, ang), True)
    if info is not None and pterms:
        res = cm.run_cases(ctx, 'cases_pad', HEADER, pterms, 'check_pad', shard=100)
        if res is not None:
            ctx.cov['traces_validated_against_impl'] += len(res)
            bad = [i for i, r in enumerate(res) if not r]
            if bad: ctx.broken.append(f'generated _pad_psf model and implementation disagree on {len(bad)} case(s), first: {pterms[bad[0]][:300]}')
    if info is not None and dterms and os.path.exists(os.path.join(ctx.build, 'Gen_C17s.vo')):
        for nm, terms, fn in (('dense', dterms, 'check_dense'), ('csr', cterms, 'check_csr')):
            res = cm.run_cases(ctx, 'cases_' + nm, HEADER_S, terms, fn, shard=40)
            if res is not None:
                ctx.cov['traces_validated_against_impl'] += len(res)
                bad = [i for i, r in enumerate(res) if not r]
                if bad: ctx.broken.append(f'generated {nm} builder model and implementation disagree on {len(bad)} case(s), first: {terms[bad[0]][:300]}')
    ctx.cov['rule'] = ('image sizes ' + str(sizes[:6]) + ('...' if len(sizes) > 6 else '') + ' x kernel sizes up to the image (even, odd, 1x1, strips; a sample of 12 per image in the quick tier, all in the thorough tier), tagged asymmetric integer kernels: '
                       'padding compared exactly with the centred-wrap definition and with the generated Gallina model; blur vs exact periodic convolution; dense/CSR builders vs the explicit BCCB matrix; '
                       'restoration vs the normal equations for lambda in {1e-3,1,10}, matrix path vs FFT path, linearity, channel independence, lambda=0 inverse. Distinct = (image, kernel) size pair.')
    return cm.finish(ctx, 'proof', '', ASSUME)

ASSUME = ['numpy.fft.fft2 / ifft2 compute the two-dimensional discrete Fourier transform and its inverse (dft / idft of thm/DFT.v) up to rounding: compared with the defining sums on small arrays on every run; '
          'inversion, convolution and correlation theorems of that transform are proved (thm/DFT.v), so the restoration theorems need no further hypothesis about the FFT',
          'the restoration theorems are over the exact complex numbers (pairs of reals): rounding of pocketfft and of the filter division is outside the model (the oracle compares within 1e-8)',
          'numpy.linalg.pinv inverts the symmetric positive definite matrix A^T A + lam I (checked through the normal-equation residual)']
