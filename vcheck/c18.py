"""C18: tensor unfold/fold, colour <-> quaternion mappings, metrics."""
import os, sys, itertools, math
from . import common as cm

HEADER = """From Coq Require Import ZArith List Bool Arith. Import ListNotations.
From B Require Import Gen_C18.
Open Scope Z_scope.
Definition t3 (L : list (list (list Z))) : nat -> nat -> nat -> Z := fun i j k => nth k (nth j (nth i L []) []) 0.
Definition m2 (L : list (list Z)) : nat -> nat -> Z := fun i j => nth j (nth i L []) 0.
Definition tab2 (r c : nat) (M : nat -> nat -> Z) := map (fun i => map (fun j => M i j) (seq 0 c)) (seq 0 r).
Definition tab3 (a b c : nat) (T : nat -> nat -> nat -> Z) := map (fun i => map (fun j => map (fun k => T i j k) (seq 0 c)) (seq 0 b)) (seq 0 a).
Fixpoint leq (a b : list Z) := match a, b with [], [] => true | x :: a', y :: b' => Z.eqb x y && leq a' b' | _, _ => false end.
Fixpoint l2eq (a b : list (list Z)) := match a, b with [], [] => true | x :: a', y :: b' => leq x y && l2eq a' b' | _, _ => false end.
Fixpoint l3eq (a b : list (list (list Z))) := match a, b with [], [] => true | x :: a', y :: b' => l2eq x y && l3eq a' b' | _, _ => false end.
(* (I, J, K, T, unfold0, unfold1, unfold2) with tags; also folds the implementation's unfoldings back *)
Definition check_unfold (c : nat * nat * nat * list (list (list Z)) * list (list Z) * list (list Z) * list (list Z)) : bool :=
  let '(di, dj, dk, T, u0, u1, u2) := c in
  l2eq (tab2 (gen_unfold0_rows di dj dk) (gen_unfold0_cols di dj dk) (gen_unfold0 Z di dj dk (t3 T))) u0
  && l2eq (tab2 (gen_unfold1_rows di dj dk) (gen_unfold1_cols di dj dk) (gen_unfold1 Z di dj dk (t3 T))) u1
  && l2eq (tab2 (gen_unfold2_rows di dj dk) (gen_unfold2_cols di dj dk) (gen_unfold2 Z di dj dk (t3 T))) u2
  && l3eq (tab3 di dj dk (gen_fold0 Z di dj dk (m2 u0))) T && l3eq (tab3 di dj dk (gen_fold1 Z di dj dk (m2 u1))) T
  && l3eq (tab3 di dj dk (gen_fold2 Z di dj dk (m2 u2))) T.
(* (H, W, rgb, real_part, quat image, rgb back) *)
Definition check_rgb (c : nat * nat * list (list (list Z)) * Z * list (list (list Z)) * list (list (list Z))) : bool :=
  let '(H, W, rgb, rp, q, back) := c in
  l3eq (tab3 H W 4 (gen_rgb_to_quat Z H W 0 rp (t3 rgb))) q && l3eq (tab3 H W 3 (gen_quat_to_rgb_noclip Z H W (t3 q))) back.
"""
HEADER_M = """From Coq Require Import ZArith QArith Qcanon Qabs List Bool Arith. Import ListNotations.
From QV Require Import MetricOps.
From B Require Import Gen_C18m.
Definition v (L : list Qc) : nat -> Qc := fun i => nth i L (Q2Qc 0).
(* |a - b| <= 2^-30 |b| *)
Definition close (a b : Qc) : bool := Qle_bool (Qabs (this a - this b)) ((1 # 1073741824) * Qabs (this b)).
Definition sq (a : Qc) : Qc := Qcmult a a.
(* noise injection: (N, 10**(snr_db/10) as computed by the implementation, Q, snr_db, returned - Q) with a generator that returns its scale;
   sqrt is the identity in MQ, so the model adds sigma^2 where the implementation adds sigma *)
Definition check_awgn (c : nat * Qc * list Qc * Qc * list Qc) : bool :=
  let '(N, p10, Q, snr, d) := c in
  let r := gen_add_awgn_snr (MQ p10) N (fun _ sc _ => sc) (v Q) snr in
  forallb (fun i => close (sq (nth i d (Q2Qc 0))) (Qcminus (r i) (v Q i))) (seq 0 N).
(* psnr: (N, x, x_ref, data_range, finite?, 10**(psnr/10)); log10 is the identity in MQ *)
Definition check_psnr (c : nat * list Qc * list Qc * option Qc * bool * Qc) : bool :=
  let '(N, x, xr, dr, fin, r) := c in
  match gen_psnr (MQ (Q2Qc 0)) N (v x) (v xr) dr with
  | None => negb fin
  | Some m => fin && close r (Qcdiv m (Q2Qc 10))
  end.
(* relative_error: (N, x, x_ref, finite?, value^2) *)
Definition check_relerr (c : nat * list Qc * list Qc * bool * Qc) : bool :=
  let '(N, x, xr, fin, r2) := c in
  match gen_relative_error (MQ (Q2Qc 0)) N (v x) (v xr) with
  | None => negb fin
  | Some m => fin && close r2 m
  end.
"""
def l3(T): return '[' + '; '.join('[' + '; '.join('[' + '; '.join(cm.zlit(v) for v in r) + ']' for r in p) + ']' for p in T) + ']'

def run(ctx):
    cm.setup_impl_path(); sys.path.insert(0, os.path.join(cm.ROOT, 'qtrans'))
    for b in cm.audit(cm.coq_sources() + [os.path.join(cm.ROOT, 'props', 'C18.v'), os.path.join(cm.ROOT, 'props', 'C18m.v')]): ctx.broken.append('audit: ' + b)
    info = None
    try:
        import gen_c18
        txt, info = gen_c18.generate(cm.REPO)
        open(os.path.join(ctx.build, 'Gen_C18.v'), 'w').write(txt)
        ctx.obligations.append(('translate:tensor.py(unfold,fold)+qslst.py(rgb/quat,split/stack)', True, ''))
    except Exception as e:
        ctx.obligations.append(('translate', False, repr(e)))
        ctx.broken.append(f'qtrans cannot translate tensor.py / qslst.py helpers any more: {e!r}')
    if info is not None: cm.prove(ctx, 'C18.v', ['Gen_C18.v'])
    info_m = None
    try:
        import gen_c18m
        txt, info_m = gen_c18m.generate(cm.REPO)
        open(os.path.join(ctx.build, 'Gen_C18m.v'), 'w').write(txt)
        ctx.obligations.append(('translate:qslst.py(add_awgn_snr,psnr,relative_error)', True, ''))
    except Exception as e:
        ctx.obligations.append(('translate:metrics', False, repr(e)))
        ctx.broken.append(f'qtrans cannot translate add_awgn_snr / psnr / relative_error any more: {e!r}')
    if info_m is not None: cm.prove(ctx, 'C18m.v', ['Gen_C18m.v'])
    try:
        import numpy as np, quaternion, tensor, qslst
    except Exception as e:
        ctx.broken.append(f'implementation does not import: {e!r}'); return cm.finish(ctx, 'proof', '', ASSUME)
    def viol(sig, what, inp, obs='', exp=''):
        ctx.violations.append({'sig': sig, 'what': what, 'input': inp, 'observed': str(obs)[:300], 'expected': str(exp)[:300],
                               'oracle': 'canonical index definition of the unfolding / exact equality'})
    rng = ctx.rng
    top = 3 if ctx.quick() else 5
    shapes = list(itertools.product(range(1, top + 1), repeat=3)) + [(4, 3, 5), (1, 1, 6), (6, 1, 1), (2, 5, 1)]
    uterms = []
    for (I, J, K) in shapes:
        tags = np.arange(I * J * K).reshape(I, J, K) + 1
        base = np.zeros((I, J, K, 4)); base[..., 0] = tags; base[..., 1] = -tags; base[..., 2] = 2 * tags; base[..., 3] = 7 * tags + 1
        Tc = quaternion.as_quat_array(base.copy())
        big = np.zeros((2 * I, J, K, 4)); big[::2] = base
        layouts = {'C': Tc, 'F': np.asfortranarray(Tc), 'transposed-view': np.ascontiguousarray(Tc.transpose(2, 1, 0)).transpose(2, 1, 0),
                   'strided': quaternion.as_quat_array(big)[::2]}
        for lname, T in layouts.items():
            inp = {'shape': [I, J, K], 'layout': lname, 'entries': 'T[i,j,k] = (t, -t, 2t, 7t+1), t = 1 + (i*J + j)*K + k'}
            us = []
            for mode in (0, 1, 2):
                try:
                    U = tensor.tensor_unfold(T, mode); F = tensor.tensor_fold(U, mode, (I, J, K))
                except Exception as e:
                    viol(f'C18:unfold{mode}:raises', f'unfold/fold raised {e!r}', inp); us.append(None); continue
                dims = [(I, J * K), (J, I * K), (K, I * J)][mode]
                if U.shape != dims: viol(f'C18:unfold{mode}:shape', 'unfolding has the wrong shape', inp, U.shape, dims); us.append(None); continue
                Uw = quaternion.as_float_array(U)[..., 0]
                ref = np.zeros(dims)
                for i in range(I):
                    for j in range(J):
                        for k in range(K):
                            r, c = [(i, j * K + k), (j, i * K + k), (k, i * J + j)][mode]
                            ref[r, c] = tags[i, j, k]
                if not np.array_equal(Uw, ref): viol(f'C18:unfold{mode}:fibres', f'mode-{mode} fibres are not the columns of the unfolding ({lname} layout)', inp, Uw.tolist(), ref.tolist())
                if quaternion.as_float_array(F).tobytes() != quaternion.as_float_array(np.ascontiguousarray(T)).tobytes() or F.shape != (I, J, K):
                    viol(f'C18:fold_unfold{mode}', f'fold(unfold(T, {mode})) != T ({lname} layout)', inp)
                if not np.array_equal(quaternion.as_float_array(tensor.tensor_unfold(tensor.tensor_fold(U, mode, (I, J, K)), mode)), quaternion.as_float_array(U)):
                    viol(f'C18:unfold_fold{mode}', 'unfold(fold(M)) != M', inp)
                if tensor.tensor_frobenius_norm(U.reshape(U.shape + (1,))) != tensor.tensor_frobenius_norm(T):
                    viol(f'C18:frob{mode}', 'unfolding changes the Frobenius norm', inp)
                if sorted(tensor.tensor_entrywise_abs(U.reshape(U.shape + (1,))).ravel().tolist()) != sorted(tensor.tensor_entrywise_abs(T).ravel().tolist()):
                    viol(f'C18:moduli{mode}', 'unfolding changes the entrywise moduli', inp)
                us.append(Uw.astype(int).tolist())
            ctx.count(('unfold', I, J, K, lname), True, sample=inp if (I, J, K) == (2, 3, 2) and lname == 'F' else None)
            if all(u is not None for u in us):
                uterms.append(f'({I}%nat, {J}%nat, {K}%nat, {l3(tags.tolist())}, ' + ', '.join('[' + '; '.join('[' + '; '.join(cm.zlit(v) for v in r) + ']' for r in u) + ']' for u in us) + ')')
    # colour <-> quaternion
    rterms = []
    for _ in range(20 if ctx.quick() else 200):
        H, W = rng.randint(1, 4), rng.randint(1, 5)
        rgb = np.array([[[rng.randint(0, 255) for _ in range(3)] for _ in range(W)] for _ in range(H)], dtype=float)
        rp = rng.randint(-5, 5)
        q = qslst.rgb_to_quat(rgb, real_part=float(rp)); back = qslst.quat_to_rgb(q, clip=False)
        if not np.array_equal(back, rgb) or not np.all(q[..., 0] == rp): viol('C18:rgb:roundtrip', 'quat_to_rgb(rgb_to_quat(x), clip=False) != x', {'rgb': rgb.tolist()})
        parts = qslst.split_quat_channels(q)
        if not np.array_equal(qslst.stack_quat_channels(*parts), q): viol('C18:split_stack', 'stack(split(q)) != q', {'q': q.tolist()})
        if any(not np.array_equal(a, b) for a, b in zip(qslst.split_quat_channels(qslst.stack_quat_channels(*parts)), parts)): viol('C18:split_stack', 'split(stack(..)) != ..', {})
        # default clip=True: exact for [0,1] images and for images outside the heuristic window
        for kind, img in (('unit', rgb / 255.0), ('bytes', rgb + 2.0), ('window', rgb / 255.0 * 1.9 - 0.45)):
            b2 = qslst.quat_to_rgb(qslst.rgb_to_quat(img))
            if not np.array_equal(b2, img):
                inwin = img.max() <= 1.5 and img.min() >= -0.5 and (img.max() > 1 or img.min() < 0)
                viol('C18:rgb:clip-window' if inwin else 'C18:rgb:clip', f'default quat_to_rgb(rgb_to_quat(x)) != x for a {kind} image', {'rgb': img.tolist()})
        # 8-bit images in which one colour channel is empty, or holds only 0 / 1 (inside the heuristic window on its own): the image as a whole is
        # outside the window, so the default conversion must return it unchanged
        for ch in range(3):
            for fill, fname in ((0.0, 'empty'), (None, 'zero-or-one')):
                img = rgb + 2.0
                img[..., ch] = fill if fill is not None else np.array([[float((i + j) % 2) for j in range(W)] for i in range(H)])
                if img.max() <= 1.5: continue
                for rpv in (0.0, 1.0):
                    b3 = qslst.quat_to_rgb(qslst.rgb_to_quat(img, real_part=rpv))
                    if not np.array_equal(b3, img): viol('C18:rgb:clip:channel', f'default quat_to_rgb(rgb_to_quat(x)) != x for an 8-bit image whose {"RGB"[ch]} channel is {fname} (maximal deviation {float(np.max(np.abs(b3 - img))):.3g})', {'rgb': img.tolist(), 'real_part': rpv})
        ctx.count(('rgb', rgb.tobytes(), rp), True)
        rterms.append(f'({H}%nat, {W}%nat, {l3(rgb.astype(int).tolist())}, {cm.zlit(rp)}, {l3(q.astype(int).tolist())}, {l3(back.astype(int).tolist())})')
    # metrics: zero-distance consistency
    for _ in range(20 if ctx.quick() else 200):
        shp = (rng.randint(1, 4), rng.randint(1, 4))
        x = np.array([[rng.uniform(-1, 1) * 10.0 ** rng.randint(-3, 3) for _ in range(shp[1])] for _ in range(shp[0])])
        for name, ref in (('generic', x), ('zeros', np.zeros(shp)), ('const', np.full(shp, 0.25))):
            if qslst.psnr(ref.copy(), ref) != float('inf'): viol('C18:psnr:equal', f'psnr(x, x) is not inf for {name} x', {'x': ref.tolist()})
            if qslst.relative_error(ref.copy(), ref) != 0.0: viol('C18:relerr:equal', f'relative_error(x, x) is not 0 for {name} x', {'x': ref.tolist()})
        for eps, tag in ((1e-3, ''), (1e-12, ''), (float(np.spacing(1.0)), ':ulp'), (1e-170, ':underflow')):
            y = x.copy(); i0 = (rng.randrange(shp[0]), rng.randrange(shp[1]))
            y[i0] = y[i0] + eps * (1 if tag else max(abs(y[i0]), 1.0)) if tag != ':ulp' else np.nextafter(y[i0], np.inf)
            if np.array_equal(x, y): continue
            if qslst.psnr(y, x) == float('inf'): viol('C18:psnr:unequal' + tag, 'psnr is inf for unequal arrays', {'x': x.tolist(), 'y': y.tolist()})
            if qslst.relative_error(y, x) == 0.0: viol('C18:relerr:unequal' + tag, 'relative_error is 0 for unequal arrays', {'x': x.tolist(), 'y': y.tolist()})
        # a zero reference: the relative error of a non-zero estimate is inf (documented), of a zero estimate 0
        if np.any(x != 0):
            rz = qslst.relative_error(x.copy(), np.zeros(shp))
            if rz != float('inf'): viol('C18:relerr:zero-reference', f'relative_error(x, 0) = {rz!r} for a non-zero x (documented: inf; the arrays are not equal)', {'x': x.tolist(), 'x_ref': np.zeros(shp).tolist()}, rz, 'inf')
        ctx.count(('metric', x.tobytes()), True)
    # differences that are the same number in every entry (a brightness offset): the mean of the difference must not be removed
    for shp in ((3, 5), (1, 7), (6, 1), (4, 4)):
        xr = np.array([[float(rng.randint(0, 200)) for _ in range(shp[1])] for _ in range(shp[0])])
        for off in (8.0, -0.5, 1.0):
            for dr in (None, 255.0):
                pv = qslst.psnr(xr + off, xr, data_range=dr)
                want = 10.0 * math.log10(((dr if dr is not None else float(xr.max() - xr.min() or 1.0)) ** 2) / (off * off))
                if not (math.isfinite(pv) and abs(pv - want) <= 1e-9 * max(1.0, abs(want))):
                    viol('C18:psnr:constant-offset', f'psnr of an image against itself plus the constant {off} is {pv!r}, expected 10 log10(range^2 / {off * off}) = {want!r}', {'shape': list(shp), 'offset': off, 'data_range': dr}, pv, want)
            if qslst.relative_error(xr + 8.0, xr) == 0.0: viol('C18:relerr:constant-offset', 'relative_error is 0 for unequal arrays (constant offset)', {'shape': list(shp)})
        ctx.count(('metric-offset', shp), True)
    # differences so small that their squares underflow
    xu = np.array([[1.0, 0.0]]); yu = np.array([[1.0, 1e-170]])
    if qslst.psnr(yu, xu) == float('inf'): viol('C18:psnr:unequal:underflow', 'psnr is inf for unequal arrays (squared difference underflows)', {'x': xu.tolist(), 'y': yu.tolist()})
    if qslst.relative_error(yu, xu) == 0.0: viol('C18:relerr:unequal:underflow', 'relative_error is 0 for unequal arrays (squared difference underflows)', {'x': xu.tolist(), 'y': yu.tolist()})
    ctx.count(('metric-underflow',), True)
    # noise injection, exactly: the standard deviation handed to the generator gives E||noise||_F^2 = ||Q||_F^2 / 10^(snr/10) for EVERY image size
    class _RecRng:
        def __init__(s): s.calls = []
        def normal(s, loc=0.0, scale=1.0, size=None): s.calls.append((float(loc), float(scale), size)); return np.zeros(size)
    for (Hh, Ww) in ((1, 1), (1, 2), (2, 1), (2, 2), (1, 3), (3, 5), (16, 16)):
        for snr_db in (0.0, 7.0, 20.0):
            Qs = np.random.default_rng(7 * Hh + Ww).normal(size=(Hh, Ww, 4)) + 0.25
            rr = _RecRng()
            try: qslst.add_awgn_snr(Qs, snr_db, rng=rr)
            except Exception: rr.calls = None              # another way of drawing the noise: only the statistical test below applies
            if rr.calls:
                loc, sig, size = rr.calls[-1]; nsamp = int(np.prod(size)) if size is not None else 1
                want = float(np.sum(Qs ** 2)) / 10 ** (snr_db / 10)
                if loc != 0.0 or len(rr.calls) != 1 or abs(sig * sig * nsamp - want) > 1e-12 * want:
                    viol('C18:awgn:exact', f'expected noise power sigma^2 * N = {sig * sig * nsamp:.6g} differs from ||Q||^2 / 10^(snr/10) = {want:.6g} for a {Hh}x{Ww} image at {snr_db} dB', {'shape': [Hh, Ww], 'snr_db': snr_db}, sig * sig * nsamp, want)
            ctx.count(('awgn-exact', Hh, Ww, snr_db), True)
    # noise injection: requested SNR in expectation (deterministic generator seeds)
    for snr_db in (0.0, 10.0, 25.0):
        vals = []
        for sd in range(6):
            Q = np.random.default_rng(100 + sd).normal(size=(16, 16, 4))
            N = qslst.add_awgn_snr(Q, snr_db, rng=np.random.default_rng(sd)) - Q
            vals.append(10 * math.log10(np.sum(Q ** 2) / np.sum(N ** 2)))
        if abs(sum(vals) / len(vals) - snr_db) > 0.3: viol('C18:awgn', f'noise injection misses the requested SNR {snr_db} dB: mean {sum(vals)/len(vals):.3f}', {'snr_db': snr_db}, vals)
        z = np.zeros((3, 3, 4))
        if not np.array_equal(qslst.add_awgn_snr(z, snr_db, rng=np.random.default_rng(0)), z): viol('C18:awgn:zero', 'noise added to the zero image', {})
        ctx.count(('awgn', snr_db), True)
    # generated metric / noise definitions next to the implementation (exact rationals; sqrt and log10 left symbolic, see HEADER_M)
    from fractions import Fraction as Fr
    ql = cm.qlit
    def qv(a): return '[' + '; '.join(ql(Fr(float(t))) for t in np.asarray(a, dtype=float).ravel()) + ']'
    class _ScaleRng:
        def normal(s, loc=0.0, scale=1.0, size=None): return np.full(size, float(scale)) + float(loc)
    aterms = []; pterms = []; eterms = []
    for it in range(12 if ctx.quick() else 60):
        Hh, Ww = rng.randint(1, 3), rng.randint(1, 3)
        Qi = np.array([[[float(rng.randint(-6, 6)) for _ in range(4)] for _ in range(Ww)] for _ in range(Hh)])
        if it % 4 == 1: Qi[..., 0] = 0.0                                    # the default real part
        if it % 4 == 2: Qi[..., 1:] = 0.0; Qi[0, 0, 0] = 3.0                 # energy in the real channel only
        if it == 3: Qi[:] = 0.0                                              # zero image: returned unchanged
        snr_db = [0.0, 7.0, 20.0, -3.0, 12.5][it % 5]
        try: out = qslst.add_awgn_snr(Qi.copy(), snr_db, rng=_ScaleRng())
        except Exception as e: viol('C18:awgn:raises', f'add_awgn_snr raised {e!r}', {'Q': Qi.tolist(), 'snr_db': snr_db}); continue
        d = [Fr(float(a)) - Fr(float(b)) for a, b in zip(out.ravel(), Qi.ravel())]
        aterms.append(f'({Qi.size}%nat, {ql(Fr(10.0 ** (snr_db / 10.0)))}, {qv(Qi)}, {ql(Fr(snr_db))}, [' + '; '.join(ql(t) for t in d) + '])')
    for it in range(16 if ctx.quick() else 80):
        n = rng.randint(1, 6)
        xr = np.array([rng.randint(-8, 8) / 4.0 for _ in range(n)])
        x = xr + np.array([rng.choice((0, 0, 1, -1, 2)) / 8.0 for _ in range(n)])
        if it % 5 == 0: x = xr.copy()
        if it % 5 == 3: x = xr + 0.375
        if it % 5 == 1: xr = np.zeros(n)
        if it % 5 == 2: xr = np.full(n, 0.75)                                # constant reference: the default range falls back to 1.0
        for dr in (None, 2.0):
            try: pv = float(qslst.psnr(x.copy(), xr.copy(), data_range=dr))
            except Exception as e: viol('C18:psnr:raises', f'psnr raised {e!r}', {'x': x.tolist(), 'x_ref': xr.tolist()}); continue
            fin = math.isfinite(pv)
            pterms.append(f'({n}%nat, {qv(x)}, {qv(xr)}, {"None" if dr is None else "Some " + ql(Fr(dr))}, {str(fin).lower()}, {ql(Fr(10.0 ** (pv / 10.0)) if fin else Fr(0))})')
        try: rv = float(qslst.relative_error(x.copy(), xr.copy()))
        except Exception as e: viol('C18:relerr:raises', f'relative_error raised {e!r}', {'x': x.tolist(), 'x_ref': xr.tolist()}); continue
        fin = math.isfinite(rv)
        eterms.append(f'({n}%nat, {qv(x)}, {qv(xr)}, {str(fin).lower()}, {ql(Fr(rv) ** 2 if fin else Fr(0))})')
    if info_m is not None:
        for name, terms, fn in (('awgn', aterms, 'check_awgn'), ('psnr', pterms, 'check_psnr'), ('relerr', eterms, 'check_relerr')):
            res = cm.run_cases(ctx, 'cases_' + name, HEADER_M, terms, fn, shard=60)
            if res is not None:
                ctx.cov['traces_validated_against_impl'] += len(res)
                bad = [i for i, r in enumerate(res) if not r]
                if bad: ctx.broken.append(f'generated {name} definition and implementation disagree on {len(bad)} of {len(res)} case(s), first: {terms[bad[0]][:300]}')
    if info is not None:
        for name, terms, fn in (('unfold', uterms, 'check_unfold'), ('rgb', rterms, 'check_rgb')):
            res = cm.run_cases(ctx, 'cases_' + name, HEADER, terms, fn, shard=120)
            if res is not None:
                ctx.cov['traces_validated_against_impl'] += len(res)
                bad = [i for i, r in enumerate(res) if not r]
                if bad: ctx.broken.append(f'generated model and implementation disagree on {len(bad)} {name} case(s), first: {terms[bad[0]][:300]}')
    ctx.cov['exhaustive'] = True
    ctx.cov['rule'] = (f'all {top}^3 tensor shapes (plus four elongated ones) x modes 0..2 x four memory layouts (C, Fortran, transposed view, strided slice) with pairwise distinct tags: '
                       'shape, canonical fibre order, bit-identical round trips, norm and moduli; generated Gallina unfold/fold executed on the same tags; '
                       'integer RGB images for the colour maps, metric probes at distances 1e-3 .. 1 ulp .. 1e-170, seeded noise injection; add_awgn_snr / psnr / relative_error regenerated from the source (Gen_C18m.v) and executed over Qc next to the implementation on integer images, dyadic arrays, equal / zero / constant references, given and default data range. Distinct = new (shape, layout) or input bytes.')
    return cm.finish(ctx, 'proof', '', ASSUME)

ASSUME = ['NumPy reshape is row-major and transpose permutes axes as documented (cross-checked on every layout)',
          'noise injection: the generator is an input of the generated model (draw loc scale); the theorem fixes the scale handed to it (N sigma^2 = ||Q||^2 / 10^(snr/10)); that the draws of rng.normal(0, sigma) have variance sigma^2 is NumPy\'s contract (estimated from 6 seeded draws, not a theorem)',
          'metrics and noise are modelled over the reals (theorems) and over Qc with sqrt / log10 / 10**x left symbolic (execution): underflow of squared differences in binary64 is outside the model (open finding KF-C18-underflow)']
