"""C19: power iteration returns a unit vector and converges to the dominant eigenpair."""
import os, sys, math, io, contextlib, warnings
from fractions import Fraction
from . import common as cm
from . import qexact as qx
from .qexact import Q
from .c16 import dq_lit, dmat, dyad_lit
from .c08 import fl, qrow

HEADER = """From Coq Require Import ZArith List Bool Arith. Import ListNotations.
From QV Require Import FOps.
From QVM Require Import Householder PowerIter.
Open Scope Z_scope.
Definition K := 30.
Definition vclose (n : nat) (v : nat -> fq FxOps) (L : list (fq FxOps)) : bool := forallb (fun i => fxq_close K (v i) (nth i L fq0)) (seq 0 n).
(* (n, A, tol, max_it, start, returned vector, returned estimate, matrix-vector products) *)
Definition check_pi (c : nat * list (list (fq FxOps)) * Z * nat * list (fq FxOps) * list (fq FxOps) * Z * nat) : bool :=
  let '(n, A, tol, mi, x0, ve, ee, ke) := c in
  let '(v, e, k) := power_iteration FxOps n (fof A) tol mi (fun i => nth i x0 fq0) in
  vclose n v ve && fx_close K e ee && Nat.eqb k ke.
(* (n, A, eig_tol, res_tol, max_it, complex start (2n), returned quaternion vector, eigenvalue, iterations) *)
Definition check_nh (c : nat * list (list (fq FxOps)) * Z * Z * nat * list (fq FxOps) * list (fq FxOps) * fq FxOps * nat) : bool :=
  let '(n, A, et, rt, mi, x0, ve, le, ke) := c in
  let '(v, l, k) := nonherm FxOps n (fof A) et (Some rt) mi (fun i => nth i x0 fq0) in
  vclose n v ve && fxq_close K l le && Nat.eqb k ke.
"""

def herm_with_spectrum(rng, spec):
    n = len(spec); U = qx.rand_unitary(rng, n, 2); D = qx.zeros(n, n)
    for i in range(n): D[i][i] = Q(spec[i])
    return qx.mm(qx.mm(U, D), qx.herm(U))

def run(ctx):
    cm.setup_impl_path()
    for b in cm.audit(cm.coq_sources() + [os.path.join(cm.ROOT, 'props', 'C19.v')]): ctx.broken.append('audit: ' + b)
    cm.prove(ctx, 'C19.v')
    try:
        import numpy as np, quaternion, utils, data_gen
    except Exception as e:
        ctx.broken.append(f'implementation does not import: {e!r}'); return cm.finish(ctx, 'proof', '', ASSUME)
    warnings.simplefilter('ignore')
    def viol(sig, what, inp, obs='', exp=''):
        ctx.violations.append({'sig': sig, 'what': what, 'input': inp, 'observed': str(obs)[:300], 'expected': str(exp)[:300], 'oracle': 'unit norm, spectral norm from the real SVD, prescribed exact spectrum'})
    rng = ctx.rng; fro = utils.quat_frobenius_norm; mmq = utils.quat_matmat; hq = utils.quat_hermitian
    starts = []
    orig_ctm = data_gen.create_test_matrix
    def rec_ctm(*a, **k): r = orig_ctm(*a, **k); starts.append(np.array(r)); return r
    def call_pi(An, seed, mi, tol, verbose=False):
        starts.clear(); np.random.seed(seed); data_gen.create_test_matrix = rec_ctm; buf = io.StringIO()
        try:
            with contextlib.redirect_stdout(buf): v, e = utils.power_iteration(An, max_iterations=mi, tol=tol, return_eigenvalue=True, verbose=verbose)
        finally: data_gen.create_test_matrix = orig_ctm
        out = buf.getvalue(); k = sum(1 for l in out.splitlines() if l.startswith('Iteration ') or l.startswith('Breakdown'))
        return v, float(e), k, (starts[0] if starts else None)
    def spec2(An): return float(np.linalg.svd(utils.real_expand(An), compute_uv=False)[0]) if An.size else 0.0
    pterms = []; nterms = []
    # ---- boundedness for arbitrary input, every budget
    top = 4 if ctx.quick() else 6
    for n in range(1, top + 1):
        G = qx.scale(Q(Fraction(1, 8)), qx.rand_int(rng, n, n, -9, 9))
        cases = [('generic', G), ('integer', qx.rand_int(rng, n, n, -3, 3)), ('zero', qx.zeros(n, n)), ('upper-triangular', [[G[i][j] if i <= j else Q() for j in range(n)] for i in range(n)]),
                 ('nilpotent', [[Q(1) if j == i + 1 else Q() for j in range(n)] for i in range(n)]), ('hermitian-negative', herm_with_spectrum(rng, [Fraction(-3)] + [Fraction(1, i + 1) for i in range(n - 1)])),
                 ('hermitian-positive', herm_with_spectrum(rng, [Fraction(3)] + [Fraction(-1, i + 1) for i in range(n - 1)])), ('skew-hermitian', qx.sub(G, qx.herm(G)))]
        for cls, A in cases:
            An = qx.to_np(A); s2 = spec2(An)
            for mi in ((0, 1, 7, 100) if ctx.quick() else (0, 1, 2, 7, 30, 100, 1000)):
                for tol in (1e-10, 1e-3):
                    for seed in ((0, 1) if ctx.quick() else (0, 1, 2, 3)):
                        inp = {'n': n, 'class': cls, 'max_iterations': mi, 'tol': tol, 'seed': seed, 'A': [[[str(c) for c in a.t()] for a in row] for row in A]}
                        try: v, e, k, x0 = call_pi(An, seed, mi, tol, verbose=True)
                        except Exception as ex: viol(f'C19:raises:{cls}', f'power_iteration raised {ex!r}', inp); continue
                        nv = fro(v)
                        if not cm.all_finite(v, e): viol(f'C19:nonfinite:{cls}', 'power_iteration returned NaN / inf', inp); continue
                        if v.shape != (n, 1): viol(f'C19:shape:{cls}', 'returned vector is not n x 1', inp, v.shape)
                        if not abs(nv - 1) <= 1e-12: viol(f'C19:unit:{cls}', f'returned vector has norm {nv!r}', inp, nv, 1)
                        if not (0 <= e <= s2 * (1 + 1e-12) + 1e-300): viol(f'C19:bounded:{cls}', f'estimate {e!r} exceeds the spectral norm {s2!r}', inp, e, s2)
                        ray = abs(mmq(mmq(hq(v), An), v)[0, 0])
                        if abs(e - ray) > 1e-12 * max(1.0, s2): viol(f'C19:estimate-is-rayleigh:{cls}', 'returned estimate is not |v^H A v|', inp, e, ray)
                        ctx.count(('bounded', n, cls, mi, tol, seed), True, sample=inp if (n, cls, mi, tol, seed) == (3, 'generic', 7, 1e-10, 0) else None)
                        if n <= 3 and seed == 0 and mi in (0, 1, 7) and x0 is not None:
                            stable = True
                            for t2 in (tol * (1 + 1e-6), tol * (1 - 1e-6)):
                                v2, e2, k2, _ = call_pi(An, seed, mi, t2, verbose=True)
                                if k2 != k or fro(v2 - v) > 1e-9: stable = False
                            if cls == 'nilpotent' and n >= 2: stable = stable          # exact breakdown: same in both
                            if not stable: ctx.cov['discarded'] += 1
                            else: pterms.append(f'({n}%nat, {dmat(fl(An))}, {dyad_lit(tol)}, {mi}%nat, {qrow(fl(x0.reshape(1, n))[0])}, {qrow(fl(v.reshape(1, n))[0])}, {dyad_lit(e)}, {k}%nat)')
    # ---- convergence on Hermitian matrices with a gap
    def spectra(n):
        if n == 1: return [('positive', [Fraction(2)]), ('negative', [Fraction(-2)])]
        rest = [Fraction(4 * (i + 1), 5 * (n - 1)) * (-1) ** i for i in range(n - 1)]            # |lambda_i| <= 0.8
        return [('positive', [Fraction(1)] + [abs(x) for x in rest]), ('negative', [Fraction(-1)] + [-abs(x) for x in rest]), ('mixed-positive', [Fraction(1)] + [-x for x in rest]),
                ('mixed-negative', [Fraction(-1)] + rest), ('gap-0.8-opposite', [Fraction(-1), Fraction(4, 5)] + [Fraction(0)] * (n - 2)), ('rank-one', [Fraction(-1)] + [Fraction(0)] * (n - 1))]
    for n in range(1, (5 if ctx.quick() else 8)):
        for sname, sp in spectra(n):
            A = herm_with_spectrum(rng, sp)
            for scn, sc in (('1', 1.0), ('2^-40', 2.0 ** -40), ('2^27', 2.0 ** 27)):
                An = qx.to_np(A) * sc; l1 = float(sp[0]) * sc
                for seed in ((0, 1, 2) if ctx.quick() else tuple(range(8))):
                    inp = {'n': n, 'spectrum': [str(x) for x in sp], 'scale': scn, 'seed': seed}
                    try: v, e, k, x0 = call_pi(An, seed, 5000, 1e-10)
                    except Exception as ex: viol(f'C19:raises:hermitian:{sname}', f'power_iteration raised {ex!r}', inp); continue
                    lam = mmq(mmq(hq(v), An), v)[0, 0].w
                    res = fro(mmq(An, v) - v * lam)
                    tag = f'{sname}' + ('' if sc == 1.0 else ':scaled')
                    if abs(fro(v) - 1) > 1e-12: viol(f'C19:unit:hermitian:{tag}', 'returned vector is not a unit vector', inp, fro(v))
                    if abs(e - abs(l1)) > 1e-8 * abs(l1): viol(f'C19:converge:estimate:{tag}', f'estimate {e!r} is not |lambda_max| = {abs(l1)!r} after up to 5000 iterations', inp, e, abs(l1))
                    if res > 1e-5 * abs(l1): viol(f'C19:converge:eigenvector:{tag}', f'||A v - lambda v|| = {res:.2e} (|lambda_max| = {abs(l1):.2e})', inp, res)
                    if lam * l1 <= 0: viol(f'C19:converge:sign:{tag}', 'Rayleigh quotient does not carry the sign of the dominant eigenvalue', inp, lam, l1)
                    # the complex-adjoint entry point on the same Hermitian matrix: unit vector, real eigenvalue of the right modulus
                    try:
                        with contextlib.redirect_stdout(io.StringIO()): qv, lo, rs = utils.power_iteration_nonhermitian(An, seed=seed)
                        if abs(fro(qv.reshape(n, 1)) - 1) > 1e-12: viol(f'C19:nonhermitian:unit:hermitian:{tag}', 'complex-adjoint variant: vector is not a unit vector', inp)
                        if complex(lo).imag != 0: viol(f'C19:nonhermitian:real:{tag}', 'complex-adjoint variant: eigenvalue of a Hermitian matrix is not real', inp, lo)
                        if abs(abs(complex(lo).real) - abs(l1)) > 1e-8 * abs(l1): viol(f'C19:nonhermitian:modulus:{tag}', 'complex-adjoint variant: |eigenvalue| is not |lambda_max|', inp, lo, l1)
                    except Exception as ex: viol(f'C19:nonhermitian:raises:{tag}', f'power_iteration_nonhermitian raised {ex!r}', inp)
                    # the same matrix held as a SparseQuaternionMatrix (the library product dispatches on the storage): same contract
                    if sc == 1.0 and n >= 2 and seed <= 1:
                        from scipy import sparse as _sp
                        Asp = utils.SparseQuaternionMatrix(*[_sp.csr_matrix(c) for c in np.moveaxis(quaternion.as_float_array(An), -1, 0)], An.shape)
                        try: vs, es, _, _ = call_pi(Asp, seed, 5000, 1e-10)
                        except Exception as ex: viol(f'C19:raises:hermitian:sparse:{sname}', f'power_iteration raised {ex!r} for sparse storage', inp); vs = None
                        if vs is not None:
                            vs = np.asarray(vs); lam_s = mmq(mmq(hq(vs), An), vs)[0, 0].w
                            if vs.shape != (n, 1) or abs(fro(vs) - 1) > 1e-12: viol(f'C19:unit:hermitian:sparse:{sname}', 'sparse storage: returned vector is not an n x 1 unit vector', inp)
                            else:
                                if es > abs(l1) * (1 + 1e-9): viol(f'C19:bounded:hermitian:sparse:{sname}', f'sparse storage: estimate {es!r} exceeds the spectral norm {abs(l1)!r}', inp, es, abs(l1))
                                if abs(es - abs(l1)) > 1e-8 * abs(l1): viol(f'C19:converge:estimate:sparse:{sname}', f'sparse storage: estimate {es!r} is not |lambda_max| = {abs(l1)!r}', inp, es, abs(l1))
                                if abs(es - abs(lam_s)) > 1e-9 * abs(l1): viol(f'C19:estimate-is-rayleigh:sparse:{sname}', 'sparse storage: returned estimate is not |v^H A v|', inp, es, abs(lam_s))
                                if fro(mmq(An, vs) - vs * lam_s) > 1e-5 * abs(l1): viol(f'C19:converge:eigenvector:sparse:{sname}', 'sparse storage: returned vector is not an eigenvector', inp)
                            ctx.count(('converge-sparse', n, sname, seed), True)
                    ctx.count(('converge', n, sname, scn, seed), True)
    # ---- "from every random start": the dominant eigenvector orthogonal to the all-ones vector (and to the coordinate vectors e_1, e_n) -- a fixed
    # start vector would never acquire a component along it.  A = l2 I + (l1 - l2) v v^H with v = (i, -i, j, -j)/2 embedded in dimension n
    for n in (4, 5, 6) if ctx.quick() else (4, 5, 6, 7, 8):
        vq = qx.zeros(n, 1); half = Fraction(1, 2)
        vq[1][0] = Q(0, half, 0, 0); vq[2][0] = Q(0, -half, 0, 0); vq[n - 3 if n > 4 else 0][0] = Q(0, 0, half, 0)
        vq[n - 2 if n > 4 else 3][0] = Q(0, 0, -half, 0)
        if n == 4: vq = [[Q(0, half, 0, 0)], [Q(0, -half, 0, 0)], [Q(0, 0, half, 0)], [Q(0, 0, -half, 0)]]
        if n > 4: vq[0][0] = Q(); vq[n - 1][0] = Q()
        nv = sum(a[0].n2() for a in vq)
        if nv != 1: continue
        P = qx.mm(vq, qx.herm(vq))
        for l1, l2 in ((Fraction(5), Fraction(4)), (Fraction(-5), Fraction(4)), (Fraction(5), Fraction(-4)), (Fraction(3), Fraction(1))):
            A = qx.add(qx.scale(Q(l2), qx.eye(n)), qx.scale(Q(l1 - l2), P)); An = qx.to_np(A)
            for seed in (0, 1, 2):
                inp = {'n': n, 'class': 'dominant eigenvector orthogonal to (1, ..., 1), e_1 and e_n', 'lambda_max': str(l1), 'other eigenvalue': str(l2), 'seed': seed}
                try: v, e, k, x0 = call_pi(An, seed, 5000, 1e-10)
                except Exception as ex: viol('C19:raises:orthogonal-start-class', f'power_iteration raised {ex!r}', inp); continue
                if abs(e - float(abs(l1))) > 1e-7 * float(abs(l1)): viol('C19:converge:estimate:orthogonal-to-ones', f'estimate {e!r} is not |lambda_max| = {float(abs(l1))!r} although the dominant eigenvalue is separated (ratio {float(abs(l2) / abs(l1)):.2f})', inp, e, float(abs(l1)))
                ip = sum((np.conjugate(qx.to_np(vq))[i, 0] * np.asarray(v).reshape(n)[i] for i in range(n)), quaternion.quaternion(0, 0, 0, 0))
                if abs(ip) < 1 - 1e-5: viol('C19:converge:eigenvector:orthogonal-to-ones', f'the returned vector has modulus-overlap {abs(ip):.3g} with the dominant eigenvector (expected 1)', inp, abs(ip))
                ctx.count(('orthogonal-start', n, str(l1), str(l2), seed), True)
    # ---- the complex-adjoint variant on non-Hermitian input: unit vector; model correspondence on small budgets
    for n in range(1, (4 if ctx.quick() else 6)):
        for cls in ('generic', 'integer', 'upper-triangular', 'complex-subfield'):
            G = qx.scale(Q(Fraction(1, 8)), qx.rand_int(rng, n, n, -9, 9))
            if cls == 'integer': G = qx.rand_int(rng, n, n, -3, 3)
            if cls == 'upper-triangular': G = [[G[i][j] if i <= j else Q() for j in range(n)] for i in range(n)]
            if cls == 'complex-subfield': G = [[Q(a.w, a.x, 0, 0) for a in r] for r in G]
            if cls != 'generic' and n == 1: continue
            G[0][0] = G[0][0] + Q(0, 1, 0, 0)                      # make sure it is not Hermitian
            An = qx.to_np(G)
            for mi in (1, 3, 40, 5000):
                for seed in (0, 1):
                    inp = {'n': n, 'class': cls, 'max_iterations': mi, 'seed': seed, 'A': [[[str(c) for c in a.t()] for a in row] for row in G]}
                    try:
                        with contextlib.redirect_stdout(io.StringIO()): qv, lo, rs = utils.power_iteration_nonhermitian(An, max_iterations=mi, seed=seed)
                    except Exception as ex: viol(f'C19:nonhermitian:raises:{cls}', f'power_iteration_nonhermitian raised {ex!r}', inp); continue
                    if abs(fro(qv.reshape(n, 1)) - 1) > 1e-12: viol(f'C19:nonhermitian:unit:{cls}', 'complex-adjoint variant: vector is not a unit vector', inp, fro(qv.reshape(n, 1)))
                    if abs(complex(lo)) > spec2(An) * (1 + 1e-9): viol(f'C19:nonhermitian:bounded:{cls}', '|eigenvalue estimate| exceeds the spectral norm', inp, lo)
                    ctx.count(('nonherm', n, cls, mi, seed), True)
                    if n <= 2 and mi in (1, 3):
                        g = np.random.default_rng(seed); x0 = g.standard_normal(2 * n) + 1j * g.standard_normal(2 * n)
                        u0 = [(float(z.real), float(z.imag), 0.0, 0.0) for z in x0]
                        lo_c = complex(lo)
                        nterms.append(f'({n}%nat, {dmat(fl(An))}, {dyad_lit(1e-12)}, {dyad_lit(1e-10)}, {mi}%nat, {qrow(u0)}, {qrow(fl(qv.reshape(1, n))[0])}, {dq_lit((lo_c.real, lo_c.imag, 0.0, 0.0))}, {len(rs)}%nat)')
    # ---- every documented option combination of the complex-adjoint variant, on Hermitian and non-Hermitian input: it answers, the
    # answer has the documented arity, the vector is a unit vector and the eigenvalue is the one of the default call (options select
    # the format / stopping rule, not the answer); res_tol = None is the documented "no residual stop"
    import itertools
    def _lam(l): return complex(l.w, l.x) if isinstance(l, quaternion.quaternion) else complex(l)
    for hname, Hq in (('hermitian', herm_with_spectrum(rng, [Fraction(3), Fraction(1), Fraction(-1, 2)])), ('hermitian-negative', herm_with_spectrum(rng, [Fraction(-2), Fraction(1), Fraction(1, 2)])),
                      ('non-hermitian', [[a + (Q(0, 1, 0, 0) if (i, j) == (0, 1) else Q()) for j, a in enumerate(r)] for i, r in enumerate(qx.rand_int(rng, 3, 3, -3, 3))])):
        An = qx.to_np(Hq); n = 3
        with contextlib.redirect_stdout(io.StringIO()): qv0, lo0, rs0 = utils.power_iteration_nonhermitian(An, seed=0)
        base = {}
        for rt, rvec, fmt, bp in itertools.product((1e-10, None, 1e-6), (True, False), ('complex', 'quaternion'), (True, False)):
            inp = {'class': hname, 'res_tol': rt, 'return_vector': rvec, 'eigenvalue_format': fmt, 'block_purify': bp, 'seed': 0, 'A': [[[str(c) for c in a.t()] for a in row] for row in Hq]}
            try:
                with contextlib.redirect_stdout(io.StringIO()): out = utils.power_iteration_nonhermitian(An, res_tol=rt, seed=0, return_vector=rvec, eigenvalue_format=fmt, block_purify=bp)
            except Exception as ex: viol(f'C19:nonhermitian:options:raises:{hname}', f'power_iteration_nonhermitian raised {ex!r} for documented option values (res_tol={rt}, return_vector={rvec}, eigenvalue_format={fmt!r}, block_purify={bp})', inp); continue
            if len(out) != (3 if rvec else 2): viol(f'C19:nonhermitian:options:arity:{hname}', 'number of returned values does not follow return_vector', inp, len(out)); continue
            lo = out[1] if rvec else out[0]
            if isinstance(lo, quaternion.quaternion) != (fmt == 'quaternion'): viol(f'C19:nonhermitian:options:format:{hname}', 'eigenvalue type does not follow eigenvalue_format', inp, type(lo).__name__)
            if rvec and abs(fro(np.asarray(out[0]).reshape(n, 1)) - 1) > 1e-12: viol(f'C19:nonhermitian:options:unit:{hname}', 'vector is not a unit vector', inp)
            base[(rt, bp)] = base.get((rt, bp), _lam(lo))                     # first = (return_vector True, complex format) for this stopping rule
            if abs(_lam(lo) - base[(rt, bp)]) > 1e-12 * max(1.0, abs(base[(rt, bp)])): viol(f'C19:nonhermitian:options:eigenvalue:{hname}', 'the eigenvalue depends on return_vector / eigenvalue_format', inp, _lam(lo), base[(rt, bp)])
            if hname.startswith('hermitian') and abs(_lam(lo) - complex(lo0)) > 1e-6 * max(1.0, abs(complex(lo0))): viol(f'C19:nonhermitian:options:eigenvalue:{hname}', 'Hermitian input: the eigenvalue differs from the one of the default call', inp, _lam(lo), complex(lo0))
            ctx.count(('nh-options', hname, str(rt), rvec, fmt, bp), True)
    _A = qx.to_np(herm_with_spectrum(rng, [Fraction(2), Fraction(1), Fraction(-1, 2)]))
    cm.layout_sweep(ctx, qx, 'C19', 'power_iteration', lambda X: call_pi(X, 0, 6, 1e-10)[:2], _A, {'n': 3})
    _B = qx.to_np(qx.rand_int(rng, 3, 3, -3, 3))
    def _nh(X):
        with contextlib.redirect_stdout(io.StringIO()): return utils.power_iteration_nonhermitian(X, max_iterations=4, seed=0)[:2]
    cm.layout_sweep(ctx, qx, 'C19', 'power_iteration_nonhermitian', _nh, _B, {'n': 3})
    for name, terms, fn, shard in (('pi', pterms, 'check_pi', 25), ('nh', nterms, 'check_nh', 8)):
        res = cm.run_cases(ctx, 'cases_' + name, HEADER, terms, fn, shard=shard, timeout=900)
        if res is not None:
            ctx.cov['traces_validated_against_impl'] += len(res)
            bad = [i for i, x in enumerate(res) if not x]
            if bad: ctx.broken.append(f'power-iteration model ({fn}) and implementation disagree on {len(bad)} of {len(res)} case(s), first: {terms[bad[0]][:400]}')
    ctx.cov['rule'] = (f'boundedness: n = 1..{top}, eight classes (generic, integer, zero, triangular, nilpotent, Hermitian with negative / positive dominant eigenvalue, skew-Hermitian), budgets 0..1000, tol 1e-10 / 1e-3, several seeds: unit norm, '
                       'estimate = |v^H A v| <= ||A||_2 (largest singular value of the real representation). Convergence: Hermitian matrices with exact prescribed spectra of gap ratio <= 0.8 (positive, negative, mixed, rank one), scaled by 1, 2^-40, 2^27, '
                       'several seeds: estimate = |lambda_max| (1e-8), ||A v - lambda v|| <= 1e-5 |lambda_max|, sign of the Rayleigh quotient; complex-adjoint entry point: unit vector, real eigenvalue of the right modulus, boundedness on non-Hermitian input. '
                       'Model executed at fixed point from the recorded start vector (vector, estimate and number of matrix-vector products).')
    return cm.finish(ctx, 'proof', '', ASSUME)

ASSUME = ['the random start vector (data_gen.create_test_matrix under the seeded global generator; numpy default_rng(seed) for the complex variant) is an input of the model; the theorems hold for every start vector with non-zero norm',
          'convergence is proved as a rate statement in the eigenbasis (coordinates evolve as lambda_i^k); that the two stopping tests fire late enough for the stated accuracy is validated numerically on the prescribed spectra, not proved',
          'the spectral norm enters the theorem as any bound of ||A x|| over unit vectors; numerically it is the largest singular value of the real representation',
          'theorems over R use the standard-library real axioms; rounding is outside the model']
