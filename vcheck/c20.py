import math
"""C20: out-of-domain arguments are rejected loudly; in-domain boundary arguments are not."""
import os, sys, hashlib, warnings, io, contextlib
from . import common as cm

HEADER = """From Coq Require Import Arith Bool String List. Import ListNotations.
From B Require Import Gen_C20.
Open Scope string_scope.
Definition mkarr nd dt k s0 s1 s2 := {| a_nd := nd; a_dt := dt; a_ndim := k; a_s0 := s0; a_s1 := s1; a_s2 := s2 |}.
Definition mkd a b o h x y z := {| A := a; B := b; opt := o; opt2 := "None"; herm := h; n1 := x; n2 := y; n3 := z |}.
Definition mkd2 a o o2 := {| A := a; B := a; opt := o; opt2 := o2; herm := false; n1 := 0; n2 := 0; n3 := 0 |}.
Definition check_guard (c : (argd -> bool) * argd * bool) : bool := let '(g, d, r) := c in Bool.eqb (g d) r.
"""

def run(ctx):
    cm.setup_impl_path(); sys.path.insert(0, os.path.join(cm.ROOT, 'qtrans'))
    for b in cm.audit(cm.coq_sources() + [os.path.join(cm.ROOT, 'props', 'C20.v')]): ctx.broken.append('audit: ' + b)
    info = None
    try:
        import gen_c20
        txt, info = gen_c20.generate(cm.REPO)
        open(os.path.join(ctx.build, 'Gen_C20.v'), 'w').write(txt)
        ctx.obligations.append((f'translate:guards of {len(info)} entry points', True, ''))
    except Exception as e:
        ctx.obligations.append(('translate', False, repr(e)))
        ctx.broken.append(f'qtrans cannot translate the guard statements any more: {e!r}')
    if info is not None: cm.prove(ctx, 'C20.v', ['Gen_C20.v'])
    try:
        import numpy as np, quaternion
        from scipy import sparse
        import utils, solver, tensor, qslst
        import importlib
        LU, eigen, tri, hessenberg, schur, qsvd = (importlib.import_module('decomp.' + x) for x in ('LU', 'eigen', 'tridiagonalize', 'hessenberg', 'schur', 'qsvd'))
    except Exception as e:
        ctx.broken.append(f'implementation does not import: {e!r}'); return cm.finish(ctx, 'proof', '', ASSUME)
    rs = np.random.RandomState(12345 + ctx.seed)
    def Qm(m, n, herm=False):
        a = quaternion.as_quat_array(rs.randint(-3, 4, size=(m, n, 4)).astype(float))
        if herm:
            a = a + np.transpose(np.conjugate(a))
        return a
    def arr(cls):
        """(python value, Coq arr literal, is Hermitian under the routine's own test)"""
        q = lambda m, n: f'(mkarr true DQuat 2 {m} {n} 0)'
        if cls == 'quat_herm3': return Qm(3, 3, True), q(3, 3), True
        if cls == 'quat_sq3':
            a = Qm(3, 3); a[0, 1] = np.conjugate(a[1, 0]) + quaternion.quaternion(1.0, 0.0, 1.0, 0.0); return a, q(3, 3), False
        if cls == 'quat_1x1': return Qm(1, 1, True), q(1, 1), True
        if cls == 'quat_2x2h': return Qm(2, 2, True), q(2, 2), True
        if cls == 'quat_1x1n':                      # 1 x 1, not Hermitian (non-zero vector part)
            a = Qm(1, 1); a[0, 0] = quaternion.quaternion(1.0, 2.0, -3.0, 0.5); return a, q(1, 1), False
        if cls in ('quat_diagdefect3', 'quat_diagdefect4'):   # Hermitian off the diagonal, one / every diagonal entry with a vector part: not Hermitian
            k = int(cls[-1]); a = Qm(k, k, True)
            if k == 3: a[1, 1] = a[1, 1] + quaternion.quaternion(0.0, 0.5, 0.0, 0.0)
            else: a = a + np.eye(k) * quaternion.quaternion(0.0, 0.3, 0.0, 0.2)
            return a, q(k, k), False
        if cls == 'quat_tall': return Qm(4, 2), q(4, 2), False
        if cls == 'quat_wide': return Qm(2, 4), q(2, 4), False
        if cls == 'quat_1xn': return Qm(1, 3), q(1, 3), False
        if cls == 'quat_nx1': return Qm(3, 1), q(3, 1), False
        if cls == 'real_sq3':
            a = rs.randint(-3, 4, size=(3, 3)).astype(float); a[0, 1] = a[1, 0] + 1.0      # never symmetric (the descriptor says "not Hermitian")
            return a, '(mkarr true DReal 2 3 3 0)', False
        if cls == 'complex_sq3':
            a = rs.randint(-3, 4, size=(3, 3)) + 1j * rs.randint(-3, 4, size=(3, 3)); a[0, 1] = np.conj(a[1, 0]) + 1.0
            return a, '(mkarr true DComplex 2 3 3 0)', False
        if cls == 'quat_3d': return quaternion.as_quat_array(rs.randint(-3, 4, size=(2, 3, 4, 4)).astype(float)), '(mkarr true DQuat 3 2 3 4)', False
        if cls == 'quat_1d': return quaternion.as_quat_array(rs.randint(-3, 4, size=(3, 4)).astype(float)), '(mkarr true DQuat 1 3 0 0)', False
        if cls == 'real_3d': return rs.rand(2, 3, 4), '(mkarr true DReal 3 2 3 4)', False
        if cls == 'sparse_sq3':
            c = [sparse.csr_matrix(rs.randint(-2, 3, size=(3, 3)).astype(float)) for _ in range(4)]
            return utils.SparseQuaternionMatrix(*c, (3, 3)), '(mkarr false DQuat 2 3 3 0)', False
        if cls == 'list': return [[1.0, 2.0], [3.0, 4.0]], '(mkarr false DReal 2 2 2 0)', False
        raise KeyError(cls)
    NOB = '(mkarr true DQuat 2 0 0 0)'
    cells = []       # (entry, class label, callable, coq descriptor or None, expected in {'accept','reject','either'})
    def add(entry, label, fn, descr, expected): cells.append((entry, label, fn, descr, expected))
    def D(a, b=NOB, opt='None', herm=False, n1=0, n2=0, n3=0): return f'(mkd {a} {b} "{opt}" {"true" if herm else "false"} {n1} {n2} {n3})'
    quiet = lambda f: f
    # ---- single-array entry points -------------------------------------------------------
    single = {
     'induced_matrix_norm_1': (utils.induced_matrix_norm_1, 'dense2d'), 'induced_matrix_norm_inf': (utils.induced_matrix_norm_inf, 'dense2d'),
     'spectral_norm_2': (utils.spectral_norm_2, 'dense'), 'real_expand': (utils.real_expand, 'dense2d'),
     'quaternion_modulus': (LU.quaternion_modulus, 'dense'), 'quaternion_triu': (LU.quaternion_triu, 'dense2d'),
     'quaternion_tril': (LU.quaternion_tril, 'dense2d'), 'quaternion_lu': (LU.quaternion_lu, 'dense2d'),
     'ishermitian': (utils.ishermitian, 'square'), 'hessenbergize': (hessenberg.hessenbergize, 'square'),
     'quaternion_schur': (lambda A: schur.quaternion_schur(A, max_iter=3), 'square'),
     'quaternion_schur_pure': (lambda A: schur.quaternion_schur_pure(A, max_iter=3), 'square'),
     'quaternion_schur_pure_implicit': (lambda A: schur.quaternion_schur_pure_implicit(A, max_iter=3), 'square'),
     'quaternion_schur_unified': (lambda A: schur.quaternion_schur_unified(A, max_iter=3), 'square'),
     'quaternion_schur_experimental': (lambda A: schur.quaternion_schur_experimental(A, max_iter=3), 'square'),
     'quaternion_eigendecomposition': (eigen.quaternion_eigendecomposition, 'hermitian'), 'tridiagonalize': (tri.tridiagonalize, 'hermitian2'),
     'power_iteration': (lambda A: utils.power_iteration(A, max_iterations=3), 'square'),
     'rsp_column': (lambda A: solver.RandomizedSketchProjectPseudoinverse(block_size=1, max_iter=2, seed=0).compute_column_variant(A), 'tall'),
     'rsp_row': (lambda A: solver.RandomizedSketchProjectPseudoinverse(block_size=1, max_iter=2, seed=0).compute_row_variant(A), 'wide'),
     'hybrid_compute': (lambda A: solver.HybridRSPNewtonSchulz(r=1, p=2, T=1, max_iter=2, seed=0).compute(A), 'tall'),
     'cgne_compute': (lambda A: solver.CGNEQSolver(max_iter=2).compute(A), 'tall'),
    }
    classes = ['quat_herm3', 'quat_sq3', 'quat_diagdefect3', 'quat_diagdefect4', 'quat_1x1', 'quat_1x1n', 'quat_2x2h', 'quat_tall', 'quat_wide', 'quat_1xn', 'quat_nx1', 'real_sq3', 'complex_sq3', 'sparse_sq3', 'quat_3d', 'quat_1d']
    def expected(kind, cls, herm):
        quat2d = cls.startswith('quat_') and cls not in ('quat_3d', 'quat_1d')
        sq = cls in ('quat_herm3', 'quat_sq3', 'quat_1x1', 'quat_1x1n', 'quat_2x2h', 'quat_diagdefect3', 'quat_diagdefect4')
        if kind == 'dense2d': return 'accept' if quat2d else 'reject'
        if kind == 'dense': return 'accept' if quat2d else ('reject' if cls in ('real_sq3', 'complex_sq3', 'sparse_sq3') else 'either')
        if cls in ('quat_3d', 'quat_1d'): return 'reject'
        if cls in ('real_sq3', 'complex_sq3', 'sparse_sq3'): return 'either'        # dtype not part of these routines' explicit contract
        if kind == 'square': return 'accept' if sq else 'reject'
        if kind == 'hermitian': return 'accept' if (sq and herm) else 'reject'
        if kind == 'hermitian2': return 'accept' if (sq and herm and cls != 'quat_1x1') else 'reject'
        if kind == 'tall': return 'accept' if cls in ('quat_diagdefect3', 'quat_diagdefect4', 'quat_herm3', 'quat_sq3', 'quat_1x1', 'quat_1x1n', 'quat_2x2h', 'quat_tall', 'quat_nx1') else 'reject'
        if kind == 'wide': return 'accept' if cls in ('quat_diagdefect3', 'quat_diagdefect4', 'quat_herm3', 'quat_sq3', 'quat_1x1', 'quat_1x1n', 'quat_2x2h', 'quat_wide', 'quat_1xn') else 'reject'
    for entry, (fn, kind) in single.items():
        for cls in classes:
            val, lit, herm = arr(cls)
            add(entry, cls, (lambda f=fn, v=val: f(v)), D(lit, herm=herm), expected(kind, cls, herm))
    # ---- option-valued entry points --------------------------------------------------------
    A3, l3, _ = arr('quat_herm3')
    for o, lab in ((None, 'None'), ('fro', 'fro'), ('F', 'F'), (1, '1'), (2, '2'), (np.inf, 'np.inf'), ('inf', 'inf')):
        add('matrix_norm', f'ord={lab}', (lambda o=o: utils.matrix_norm(A3, o)), D(l3, opt=lab, herm=True), 'accept')
    for o in ('nuc', 'Frobenius', 3, -1, 'two', '2', 0, 'INF'):
        add('matrix_norm', f'ord={o!r}', (lambda o=o: utils.matrix_norm(A3, o)), D(l3, opt=str(o) if not (isinstance(o, str) and o == '2') else 'str2', herm=True), 'reject')
    for o, lab, hm, exp in (('Dieudonne', 'Dieudonne', True, 'accept'), ('Dieudonné', 'Dieudonne', True, 'accept'), ('Moore', 'Moore', True, 'accept'),
                            ('Study', 'Study', True, 'reject'), ('moore', 'moore', True, 'reject'), ('det', 'det', True, 'reject'), ('', '', True, 'reject')):
        add('det', f'd={o!r}', (lambda o=o: utils.det(A3, o)), D(l3, opt=lab, herm=True), exp)
    An, ln, _ = arr('quat_sq3')
    add('det', 'Moore non-Hermitian', lambda: utils.det(An, 'Moore'), D(ln, opt='Moore', herm=False), 'reject')
    add('det', 'Dieudonne non-Hermitian', lambda: utils.det(An, 'Dieudonne'), D(ln, opt='Dieudonne', herm=False), 'accept')
    At, lt, _ = arr('quat_tall')
    add('det', 'non-square', lambda: utils.det(At, 'Dieudonne'), D(lt, opt='Dieudonne'), 'reject')
    for o, exp in (('right', 'accept'), ('left', 'accept'), ('both', 'reject'), ('Right', 'reject'), ('', 'reject'), ('up', 'reject')):
        add('quat_null_space', f'side={o!r}', (lambda o=o: utils.quat_null_space(At, side=o)), D(lt, opt=o), exp)
    for o, exp in (('x', 'accept'), ('y', 'reject'), ('z', 'reject'), ('i', 'reject')):
        add('quaternion_to_complex_adjoint', f'axis={o}', (lambda o=o: utils.quaternion_to_complex_adjoint(A3, axis=o)), D(l3, opt=o, herm=True), exp)
    for cls in classes:
        if cls == 'sparse_sq3': continue
        v, l, h = arr(cls)
        sqc = cls in ('quat_herm3', 'quat_sq3', 'quat_1x1', 'quat_1x1n', 'quat_2x2h', 'quat_diagdefect3', 'quat_diagdefect4')
        add('quaternion_to_complex_adjoint', cls, (lambda v=v: utils.quaternion_to_complex_adjoint(v)), D(l, opt='x', herm=h), 'accept' if sqc else 'reject')
        def callp(v=v):
            with contextlib.redirect_stdout(io.StringIO()): return utils.power_iteration_nonhermitian(v, max_iterations=3)
        add('power_iteration_nonhermitian', 'argument ' + cls, callp, None, 'accept' if sqc else ('reject' if cls.startswith('quat_') else 'either'))
    # columns and rows of every small length (an n x 1 block broadcasts where an m x n block does not)
    for k in (2, 3, 4, 5):
        for shp in ((k, 1), (1, k)):
            Vq = Qm(*shp)
            add('quaternion_to_complex_adjoint', f'{shp[0]}x{shp[1]}', (lambda Vq=Vq: utils.quaternion_to_complex_adjoint(Vq)), D(f'(mkarr true DQuat 2 {shp[0]} {shp[1]} 0)', opt='x'), 'reject')
            def callq(Vq=Vq):
                with contextlib.redirect_stdout(io.StringIO()): return utils.power_iteration_nonhermitian(Vq, max_iterations=3)
            add('power_iteration_nonhermitian', f'argument {shp[0]}x{shp[1]}', callq, None, 'reject')
    # ---- shape-coupled pairs ------------------------------------------------------------------
    R8 = rs.rand(8, 12)
    for (m, n), exp in (((2, 3), 'accept'), ((3, 2), 'reject'), ((2, 2), 'reject'), ((1, 3), 'reject')):
        add('real_contract', f'R 8x12, m={m}, n={n}', (lambda m=m, n=n: utils.real_contract(R8, m, n)), D('(mkarr true DReal 2 8 12 0)', n1=m, n2=n), exp)
    # surplus or missing rows / columns that are not a whole 4 x 4 block (every size in a window around (4m, 4n))
    for (m, n) in ((2, 3), (1, 1), (1, 2), (3, 1)):
        for dr in (-4, -1, 0, 1, 2, 3, 4):
            for dc in (-4, -1, 0, 1, 3, 4):
                rr, cc = 4 * m + dr, 4 * n + dc
                if rr < 0 or cc < 0 or (dr, dc) == (0, 0) and (m, n) == (2, 3): continue
                Rx = rs.rand(rr, cc)
                add('real_contract', f'R {rr}x{cc}, m={m}, n={n}', (lambda Rx=Rx, m=m, n=n: utils.real_contract(Rx, m, n)), D(f'(mkarr true DReal 2 {rr} {cc} 0)', n1=m, n2=n), 'accept' if (dr, dc) == (0, 0) else 'reject')
    def utri(nr, nb, k=1):
        R = [np.triu(rs.randint(1, 4, size=(nr, nr)).astype(float)) + np.eye(nr) for _ in range(4)]
        b = [rs.randint(-2, 3, size=(nb, k)).astype(float) for _ in range(4)]
        return lambda: utils.UtriangleQsparse(*R, *b)
    add('UtriangleQsparse', 'R 3x3, b 3x1', utri(3, 3), D('(mkarr true DReal 2 3 3 0)', '(mkarr true DReal 2 3 1 0)'), 'accept')
    add('UtriangleQsparse', 'R 3x3, b 3x2', utri(3, 3, 2), D('(mkarr true DReal 2 3 3 0)', '(mkarr true DReal 2 3 2 0)'), 'accept')
    add('UtriangleQsparse', 'R 3x3, b 2x1', utri(3, 2), D('(mkarr true DReal 2 3 3 0)', '(mkarr true DReal 2 2 1 0)'), 'reject')
    add('UtriangleQsparse', 'R 1x1, b 1x1', utri(1, 1), D('(mkarr true DReal 2 1 1 0)', '(mkarr true DReal 2 1 1 0)'), 'accept')
    for nr in (2, 3, 4):
        for nb, kk in ((nr + 1, 1), (nr + 2, 2), (2 * nr, 1), (nr - 1, 1)):
            add('UtriangleQsparse', f'R {nr}x{nr}, b {nb}x{kk}', utri(nr, nb, kk), D(f'(mkarr true DReal 2 {nr} {nr} 0)', f'(mkarr true DReal 2 {nb} {kk} 0)'), 'reject')
    # reflector builders: (a, v) must have the same shape (flat / column / row) and v must be real
    tri = importlib.import_module('decomp.tridiagonalize')
    def hv(shape_a, shape_v, vdt='real', fn='householder_vector'):
        a = quaternion.as_quat_array(rs.standard_normal(tuple(shape_a) + (4,)))
        v = np.zeros(shape_v); v.flat[0] = 1.0
        if vdt == 'complex': v = v + 1j * np.ones(shape_v)
        if vdt == 'quat': v = quaternion.as_quat_array(np.concatenate([v[..., None], np.ones(tuple(shape_v) + (3,))], axis=-1))
        return lambda: getattr(tri, fn)(a, v)
    def sd(shape, dt='DQuat'): return f'(mkarr true {dt} {len(shape)} {shape[0]} {shape[1] if len(shape) > 1 else 0} 0)'
    for n in (3, 5):
        lay = {'flat': (n,), 'column': (n, 1), 'row': (1, n)}
        for la, sa in lay.items():
            for lv, sv in lay.items():
                for fn in ('householder_vector', 'householder_matrix'):
                    # householder_matrix on 2-D column / row vectors: the documented domain does not say; the routine has branches for them but
                    # raises TypeError inside its outer-product loop (observation recorded in DESIGN 12.4, not claimed either way)
                    exp = 'reject' if la != lv else ('either' if (fn == 'householder_matrix' and la != 'flat') else 'accept')
                    add(fn, f'a {la} {n}, v {lv} {n}', hv(sa, sv, fn=fn), D(sd(sa), sd(sv, 'DReal')) if exp != 'either' else None, exp)
        add('householder_vector', f'a flat {n}, v flat {n + 1}', hv((n,), (n + 1,)), D(sd((n,)), sd((n + 1,), 'DReal')), 'reject')
        add('householder_matrix', f'a flat {n}, v flat {n + 1}', hv((n,), (n + 1,), fn='householder_matrix'), D(sd((n,)), sd((n + 1,), 'DReal')), 'reject')
        add('householder_vector', f'a flat {n}, v complex flat {n}', hv((n,), (n,), 'complex'), D(sd((n,)), sd((n,), 'DComplex')), 'reject')
        # complex targets in which SOME entries are real (i e1, (1+i)/sqrt 2 e1, a real vector with one complex component), every layout
        for la, sa in lay.items():
            for cname, mk in (('i e1', lambda sh: (lambda v: (v.__setitem__(tuple([0] * len(sh)), 1j), v)[1])(np.zeros(sh, dtype=complex))),
                              ('(1+i)/sqrt2 e1', lambda sh: (lambda v: (v.__setitem__(tuple([0] * len(sh)), (1 + 1j) / math.sqrt(2)), v)[1])(np.zeros(sh, dtype=complex))),
                              ('real with one complex entry', lambda sh: (lambda v: (v.__setitem__(tuple([0] * len(sh)), 0.6), v.reshape(-1).__setitem__(1, 0.8j), v)[2])(np.zeros(sh, dtype=complex)))):
                def hvc(sa=sa, mk=mk):
                    a = Qm(*sa) if len(sa) == 2 else Qm(sa[0], 1).reshape(sa[0]); vv = mk(sa)
                    return lambda: tri.householder_vector(a, vv)
                add('householder_vector', f'a {la} {n}, v complex ({cname}) {la} {n}', hvc(), None, 'reject')
        add('householder_vector', f'a flat {n}, v quaternion flat {n}', hv((n,), (n,), 'quat'), D(sd((n,)), sd((n,), 'DQuat')), 'reject')      # np.imag of a quaternion array is identically zero: the dtype is what the guard has to test
    # truncated Q-SVD: R must not exceed min(m, n)
    qsvd_mod = importlib.import_module('decomp.qsvd')
    for (mm, nn) in ((3, 3), (4, 2), (2, 4), (1, 3), (1, 1)):
        Xq = Qm(mm, nn)
        for R in range(0, max(mm, nn) + 2):
            add('classical_qsvd', f'{mm}x{nn}, R={R}', (lambda Xq=Xq, R=R: qsvd_mod.classical_qsvd(Xq, R)), D(f'(mkarr true DQuat 2 {mm} {nn} 0)', n1=R), 'accept' if R <= min(mm, nn) else 'reject')
    # the two enumerated options of the complex-adjoint power iteration, on Hermitian and on generic input
    for mname, Mx in (('hermitian', Qm(3, 3, herm=True)), ('generic', Qm(3, 3))):
        for ef in ('complex', 'quaternion', 'foo', '', 'Complex'):
            for ax in ('x', 'y', 'z', ''):
                ok = ef in ('complex', 'quaternion') and ax == 'x'
                def call(Mx=Mx, ef=ef, ax=ax):
                    with contextlib.redirect_stdout(io.StringIO()): return utils.power_iteration_nonhermitian(Mx, max_iterations=3, eigenvalue_format=ef, subfield_axis=ax)
                add('power_iteration_nonhermitian', f'{mname}, eigenvalue_format={ef!r}, subfield_axis={ax!r}', call, f'(mkd2 (mkarr true DQuat 2 3 3 0) "{ef}" "{ax}")', 'accept' if ok else 'reject')
    def gm(A, b, **kw): return lambda: solver.QGMRESSolver(tol=1e-8, **kw).solve(A, b)
    qd = lambda m, n: f'(mkarr true DQuat 2 {m} {n} 0)'
    for pname, kw in (('', {}), (' with left_lu', {'preconditioner': 'left_lu'})):
        add('qgmres_solve', 'square 3x3' + pname, gm(Qm(3, 3), Qm(3, 1), **kw), D(qd(3, 3), qd(3, 1)), 'accept')
        add('qgmres_solve', '1x1' + pname, gm(Qm(1, 1) + 5, Qm(1, 1), **kw), D(qd(1, 1), qd(1, 1)), 'accept')
        add('qgmres_solve', 'tall A' + pname, gm(Qm(4, 2), Qm(4, 1), **kw), D(qd(4, 2), qd(4, 1)), 'reject')
        add('qgmres_solve', 'wide A' + pname, gm(Qm(2, 4), Qm(2, 1), **kw), D(qd(2, 4), qd(2, 1)), 'reject')
        add('qgmres_solve', 'wide A, b with as many rows as A has columns' + pname, gm(Qm(2, 3), Qm(3, 1), **kw), D(qd(2, 3), qd(3, 1)), 'reject')
        add('qgmres_solve', 'mismatched b (short)' + pname, gm(Qm(3, 3), Qm(2, 1), **kw), D(qd(3, 3), qd(2, 1)), 'reject')
        add('qgmres_solve', 'mismatched b (long)' + pname, gm(Qm(3, 3), Qm(4, 1), **kw), D(qd(3, 3), qd(4, 1)), 'reject')
        add('qgmres_solve', 'mismatched zero b (short)' + pname, gm(Qm(3, 3), Qm(2, 1) * 0, **kw), D(qd(3, 3), qd(2, 1)), 'reject')
        add('qgmres_solve', 'mismatched zero b (long)' + pname, gm(Qm(3, 3), Qm(4, 1) * 0, **kw), D(qd(3, 3), qd(4, 1)), 'reject')
        add('qgmres_solve', 'zero b' + pname, gm(Qm(3, 3), Qm(3, 1) * 0, **kw), D(qd(3, 3), qd(3, 1)), 'accept')
    X = Qm(4, 3)
    add('deep_linear_compute', 'layers[0] = input dim', lambda: contextlib.redirect_stdout(io.StringIO()).__enter__() and None or solver.DeepLinearNewtonSchulz(max_iter=1).compute(X, [3, 4]), D('(mkarr true DQuat 2 4 3 0)', n1=3), 'accept')
    add('deep_linear_compute', 'layers[0] != input dim', lambda: solver.DeepLinearNewtonSchulz(max_iter=1).compute(X, [4, 4]), D('(mkarr true DQuat 2 4 3 0)', n1=4), 'reject')
    # ---- tensors ---------------------------------------------------------------------------------
    T, lT, _ = arr('quat_3d')
    for mode, exp in ((0, 'accept'), (1, 'accept'), (2, 'accept'), (3, 'reject'), (-1, 'reject')):
        add('tensor_unfold', f'mode={mode}', (lambda mode=mode: tensor.tensor_unfold(T, mode)), D(lT, n1=mode) if mode >= 0 else None, exp)
    for cls in ('quat_sq3', 'real_3d', 'quat_1d'):
        v, l, _ = arr(cls)
        add('tensor_unfold', cls, (lambda v=v: tensor.tensor_unfold(v, 0)), D(l, n1=0), 'reject')
    for mode in (0, 1, 2):
        dims = [(2, 12), (3, 8), (4, 6)][mode]
        M = Qm(*dims)
        add('tensor_fold', f'mode={mode} consistent', (lambda M=M, mode=mode: tensor.tensor_fold(M, mode, (2, 3, 4))), D(f'(mkarr true DQuat 2 {dims[0]} {dims[1]} 0)', opt=str(mode), n1=2, n2=3, n3=4), 'accept')
        add('tensor_fold', f'mode={mode} inconsistent shape', (lambda M=M, mode=mode: tensor.tensor_fold(M, mode, (2, 4, 3) if mode else (3, 2, 4))), D(f'(mkarr true DQuat 2 {dims[0]} {dims[1]} 0)', opt=str(mode), n1=(2 if mode else 3), n2=(4 if mode else 2), n3=(3 if mode else 4)), 'reject')
        add('tensor_fold', f'mode={mode} transposed M', (lambda M=M, mode=mode: tensor.tensor_fold(M.T.copy(), mode, (2, 3, 4))), D(f'(mkarr true DQuat 2 {dims[1]} {dims[0]} 0)', opt=str(mode), n1=2, n2=3, n3=4), 'reject')
    add('tensor_fold', 'mode=3', lambda: tensor.tensor_fold(Qm(2, 12), 3, (2, 3, 4)), D('(mkarr true DQuat 2 2 12 0)', opt='3', n1=2, n2=3, n3=4), 'reject')
    # ---- image helpers ------------------------------------------------------------------------------
    add('rgb_to_quat', '(3,4,3)', lambda: qslst.rgb_to_quat(rs.rand(3, 4, 3)), D('(mkarr true DReal 3 3 4 3)'), 'accept')
    add('rgb_to_quat', '(1,1,3)', lambda: qslst.rgb_to_quat(rs.rand(1, 1, 3)), D('(mkarr true DReal 3 1 1 3)'), 'accept')
    add('rgb_to_quat', '(3,4,4)', lambda: qslst.rgb_to_quat(rs.rand(3, 4, 4)), D('(mkarr true DReal 3 3 4 4)'), 'reject')
    add('rgb_to_quat', '(3,4)', lambda: qslst.rgb_to_quat(rs.rand(3, 4)), D('(mkarr true DReal 2 3 4 0)'), 'reject')
    add('quat_to_rgb', '(3,4,4)', lambda: qslst.quat_to_rgb(rs.rand(3, 4, 4)), D('(mkarr true DReal 3 3 4 4)'), 'accept')
    add('quat_to_rgb', '(3,4,3)', lambda: qslst.quat_to_rgb(rs.rand(3, 4, 3)), D('(mkarr true DReal 3 3 4 3)'), 'reject')
    psf = np.ones((3, 3)) / 9
    for bc, exp in (('periodic', 'accept'), ('reflect', 'reject'), ('zero', 'reject'), ('Periodic', 'reject')):
        add('apply_blur_fft', f'boundary={bc}', (lambda bc=bc: qslst.apply_blur_fft(rs.rand(4, 5, 4), psf, boundary=bc)), D('(mkarr true DReal 3 4 5 4)', '(mkarr true DReal 2 3 3 0)', opt=bc), exp)
        add('qslst_restore_fft', f'boundary={bc}', (lambda bc=bc: qslst.qslst_restore_fft(rs.rand(4, 5, 4), psf, 0.1, boundary=bc)), D('(mkarr true DReal 3 4 5 4)', '(mkarr true DReal 2 3 3 0)', opt=bc), exp)
    add('qslst_restore_matrix', 'A 6x6 for 2x3 image', lambda: qslst.qslst_restore_matrix(rs.rand(2, 3, 4), np.eye(6), 0.1), D('(mkarr true DReal 3 2 3 4)', '(mkarr true DReal 2 6 6 0)'), 'accept')
    add('qslst_restore_matrix', 'A 5x5 for 2x3 image', lambda: qslst.qslst_restore_matrix(rs.rand(2, 3, 4), np.eye(5), 0.1), D('(mkarr true DReal 3 2 3 4)', '(mkarr true DReal 2 5 5 0)'), 'reject')
    add('qslst_restore_matrix', 'A 6x5 for 2x3 image', lambda: qslst.qslst_restore_matrix(rs.rand(2, 3, 4), np.ones((6, 5)), 0.1), D('(mkarr true DReal 3 2 3 4)', '(mkarr true DReal 2 6 5 0)'), 'reject')
    # ---- cells beyond the generated guards: enumerated options of the Schur routines, truncation rank, PSF size, dtype of iterative routines
    As, _, _ = arr('quat_sq3')
    for nm, f in (('quaternion_schur_unified(variant=)', lambda v: schur.quaternion_schur_unified(As, variant=v, max_iter=3)),
                  ('quaternion_schur(shift=)', lambda v: schur.quaternion_schur(As, shift=v, max_iter=3)),
                  ('quaternion_schur_pure(shift_mode=)', lambda v: schur.quaternion_schur_pure(As, shift_mode=v, max_iter=3)),
                  ('quaternion_schur_pure_implicit(shift_mode=)', lambda v: schur.quaternion_schur_pure_implicit(As, shift_mode=v, max_iter=3)),
                  ('quaternion_schur_experimental(variant=)', lambda v: schur.quaternion_schur_experimental(As, variant=v, max_iter=3))):
        add(nm, 'unknown option string', (lambda f=f: f('no-such-option')), None, 'reject')
    for v in ('none', 'rayleigh', 'implicit', 'aed', 'ds'):
        add('quaternion_schur_unified(variant=)', v, (lambda v=v: schur.quaternion_schur_unified(As, variant=v, max_iter=3)), None, 'accept')
    for v in ('rayleigh', 'wilkinson', 'double'):
        add('quaternion_schur(shift=)', v, (lambda v=v: schur.quaternion_schur(As, shift=v, max_iter=3)), None, 'accept')
    for R, exp in ((1, 'accept'), (2, 'accept'), (3, 'reject'), (0, 'either'), (-1, 'reject')):
        add('classical_qsvd(R)', f'R={R} for a 4x2 matrix', (lambda R=R: qsvd.classical_qsvd(At, R)), None, exp)
    add('apply_blur_fft', 'PSF larger than the image', lambda: qslst.apply_blur_fft(rs.rand(2, 3, 4), np.ones((5, 5)) / 25), None, 'reject')
    add('qslst_restore_fft', 'PSF larger than the image', lambda: qslst.qslst_restore_fft(rs.rand(2, 3, 4), np.ones((5, 5)) / 25, 0.1), None, 'reject')
    Rr, _, _ = arr('real_sq3')
    # real arrays are answered correctly by the iterative routines (real numbers are quaternions): benign, not a rejection class
    add('power_iteration', 'real dtype', lambda: utils.power_iteration(Rr, max_iterations=3), None, 'either')
    add('NewtonSchulzPseudoinverse.compute', 'real dtype', lambda: solver.NewtonSchulzPseudoinverse(max_iter=2).compute(Rr), None, 'either')
    add('HigherOrderNewtonSchulzPseudoinverse.compute', 'real dtype', lambda: solver.HigherOrderNewtonSchulzPseudoinverse(max_iter=2).compute(Rr), None, 'either')
    add('quat_frobenius_norm', 'real dtype', lambda: utils.quat_frobenius_norm(Rr), None, 'either')
    # ---- execute -----------------------------------------------------------------------------------------
    warnings.simplefilter('ignore')
    gterms = []; observed = {}
    for entry, label, fn, descr, exp in cells:
        with contextlib.redirect_stdout(io.StringIO()):
            try: fn(); obs = 'return'
            except BaseException as e: obs = 'raise:' + type(e).__name__
        observed[(entry, label)] = obs
        ok = exp == 'either' or (exp == 'accept') == (obs == 'return')
        ctx.count((entry, label), True, sample={'entry': entry, 'class': label, 'expected': exp, 'observed': obs} if len(ctx.cov['samples']) < 4 else None)
        if not ok:
            ctx.violations.append({'sig': f'C20:{entry}:{label}:{"answered" if obs == "return" else "rejected"}',
                                   'what': f'{entry}({label}) ' + ('returned a value for an argument outside its domain' if obs == 'return' else f'rejected an in-domain argument ({obs})'),
                                   'input': {'entry': entry, 'class': label}, 'observed': obs, 'expected': exp, 'oracle': 'documented domain table'})
        if descr is not None and info is not None and entry in info:
            # model: an explicit guard that fires must be observed as a raise; a silent guard says nothing about later (implicit) rejections
            gterms.append((entry, label, descr, obs))
    if info is not None and gterms:
        terms = [f'(guard_{e}, {d}, true)' for (e, l, d, o) in gterms]     # ask Coq for each guard value (compare against true)
        res = cm.run_cases(ctx, 'cases_guard', HEADER, terms, 'check_guard', shard=400)
        if res is not None:
            ctx.cov['traces_validated_against_impl'] += len(res)
            for (e, l, d, o), fires in zip(gterms, res):
                if fires and o == 'return':
                    ctx.broken.append(f'model guard of {e} fires on class {l} but the implementation returns')
                if (not fires) and o.startswith('raise') :
                    ctx.cov.setdefault('implicit_or_late_rejections', []).append(f'{e}:{l}:{o}')
    ctx.cov['exhaustive'] = True
    ctx.cov['entry_points'] = len({c[0] for c in cells}); ctx.cov['cells'] = len(cells)
    ctx.cov['rule'] = ('the full table: every modelled entry point x every applicable argument class (square / Hermitian / tall / wide / 1x1 / 1xn / nx1 / real / complex / sparse / 3-D / 1-D, '
                       'every accepted and several unknown option spellings, coupled shapes); raise-or-return observed and compared with the documented domain and with the generated guard evaluated in Coq. Distinct = (entry point, class) cell.')
    return cm.finish(ctx, 'proof', '', ASSUME)

ASSUME = ['the documented domains are my reading of the docstrings (props/C20.v, expected() in vcheck/c20.py)',
          'implicit rejections raised inside NumPy count as loud rejections; they are observed, not modelled']
