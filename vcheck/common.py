"""Shared machinery of the checks: context, coqc runner, audit, evidence, replay, known findings."""
import json, os, re, subprocess, sys, time, random, shutil, hashlib
from fractions import Fraction

ROOT = os.path.dirname(os.path.dirname(os.path.abspath(__file__)))
REPO = os.environ.get('QUATICA_REPO', '/repo')
COQ = os.path.join(ROOT, 'coq')
COQ_ARGS = ['-Q', os.path.join(COQ, 'lib'), 'QV', '-Q', os.path.join(COQ, 'thm'), 'QVT',
            '-Q', os.path.join(COQ, 'model'), 'QVM', '-Q', '.', 'B']
FORBIDDEN = re.compile(r'\b(Admitted|admit|Axiom|Axioms|Parameter|Parameters|Conjecture|Abort)\b'
                       r'|Unset\s+Guard|bypass_check|type-in-type|impredicative-set|Admit\s+Obligations|native_compute')

TRUSTED_BASE = [
    'Coq 8.16.1 kernel (coqc; vm_compute used for Eval in correspondence files and finite witnesses; no native_compute)',
    'qtrans translator (Python ast -> Gallina) and the NumPy meaning given to its combinators (cross-checked by executing the generated definitions against the implementation)',
    'vcheck harness: input generation, float.hex -> exact dyadic conversion, comparison predicates (Gallina)',
    'binary64 rounding is modelled by exact arithmetic (bit-exact only on integer inputs below 2^53)',
]

def setup_impl_path():
    for p in (os.path.join(REPO, 'quatica'), REPO):
        if p not in sys.path: sys.path.insert(0, p)

class Ctx:
    def __init__(s, pid, tier, seed):
        s.pid = pid; s.tier = tier; s.seed = seed
        s.t0 = time.time()
        s.rng = random.Random((seed, pid).__repr__())
        s.build = os.path.join(ROOT, 'build', f'{pid}-{os.getpid()}')
        shutil.rmtree(s.build, ignore_errors=True); os.makedirs(s.build)
        s.obligations = []        # (name, ok, detail)
        s.axioms = {}             # theorem -> text
        s.broken = []             # names of broken obligations / correspondences
        s.violations = []         # dicts: sig, what, input, observed, expected
        s.known_hits = []
        s.cov = {'evaluations': 0, 'distinct_nontrivial': 0, 'samples': [], 'rule': '',
                 'traces_validated_against_impl': 0, 'discarded': 0}
        s.notes = []
        s.hashes = set()
    def quick(s): return s.tier == 'quick'
    def cleanup(s): shutil.rmtree(s.build, ignore_errors=True)
    def count(s, key, nontrivial=True, sample=None):
        """count one evaluated case; key = canonical description for distinctness"""
        s.cov['evaluations'] += 1
        h = hashlib.sha1(repr(key).encode()).hexdigest()
        if h not in s.hashes:
            s.hashes.add(h)
            if nontrivial: s.cov['distinct_nontrivial'] += 1
        if sample is not None and len(s.cov['samples']) < 6: s.cov['samples'].append(sample)

# ------------------------------------------------------------------ audit
def audit(paths):
    """forbidden vernacular; Variable/Hypothesis outside sections"""
    bad = []
    for p in paths:
        if not os.path.exists(p): continue
        txt = open(p).read()
        txt_nc = re.sub(r'\(\*.*?\*\)', lambda m: ' ' * len(m.group(0)), txt, flags=re.S)
        for m in FORBIDDEN.finditer(txt_nc):
            bad.append(f'{p}: forbidden `{m.group(0)}`')
        depth = 0
        for line in txt_nc.split('\n'):
            t = line.strip()
            if re.match(r'Section\s+\w+\s*\.', t): depth += 1
            elif re.match(r'End\s+\w+\s*\.', t) and depth > 0: depth -= 1
            elif depth == 0 and re.match(r'(Variable|Variables|Hypothesis|Hypotheses|Context)\b', t):
                bad.append(f'{p}: `{t[:40]}` outside a section')
    return bad

def coq_sources():
    out = []
    for d, _, fs in os.walk(COQ):
        out += [os.path.join(d, f) for f in fs if f.endswith('.v')]
    return out

# ------------------------------------------------------------------ coqc
def coqc(ctx, fname, timeout=300):
    """compile build/<fname>; returns (ok, output)"""
    try:
        p = subprocess.run(['timeout', str(timeout), 'coqc'] + COQ_ARGS + [fname], cwd=ctx.build,
                           capture_output=True, text=True)
        return p.returncode == 0, p.stdout + p.stderr
    except Exception as e:
        return False, str(e)

def theorem_names(txt):
    return re.findall(r'^\s*(?:Theorem|Lemma|Example|Corollary)\s+(\w+)', txt, re.M)

def prove(ctx, prop_file, gen_files=(), extra_props=()):
    """compile generated files then the property file; register obligations and axioms"""
    for g in gen_files:
        ok, out = coqc(ctx, g)
        ctx.obligations.append((f'generated:{g}', ok, '' if ok else out[-600:]))
        if not ok:
            ctx.broken.append(f'generated definitions {g} do not compile: {out[-300:]}')
            return False
    allok = True
    for pf in (prop_file,) + tuple(extra_props):
        src = os.path.join(ROOT, 'props', pf)
        shutil.copy(src, os.path.join(ctx.build, pf))
        txt = open(src).read()
        names = theorem_names(txt)
        ok, out = coqc(ctx, pf)
        if ok:
            for n in names: ctx.obligations.append((n, True, ''))
            # Print Assumptions output, in order
            pa = re.findall(r'^Print Assumptions (\w+)\.', txt, re.M)
            chunks = re.split(r'(?=^Closed under the global context|^Axioms:)', out, flags=re.M)
            chunks = [c for c in chunks if c.startswith('Closed') or c.startswith('Axioms:')]
            for n, c in zip(pa, chunks):
                if c.startswith('Closed'): ctx.axioms[n] = 'closed'
                else: ctx.axioms[n] = ' '.join(sorted(set(re.findall(r'^([A-Za-z_][\w.]*)', c, re.M)) - {'Axioms'}))
        else:
            allok = False
            m = re.search(r'line (\d+), characters', out)
            failing = '?'
            if m:
                ln = int(m.group(1)); lines = txt.split('\n')
                for i in range(min(ln, len(lines)) - 1, -1, -1):
                    mm = re.match(r'\s*(?:Theorem|Lemma|Example|Corollary)\s+(\w+)', lines[i])
                    if mm: failing = mm.group(1); break
            seen_fail = False
            for n in names:
                if n == failing: seen_fail = True
                ctx.obligations.append((n, not seen_fail and failing != '?', '' if not seen_fail else 'not checked / failed'))
            ctx.broken.append(f'theorem {failing} in props/{pf} no longer checks: ' + out.strip()[-400:])
    return allok

# ------------------------------------------------------------------ correspondence via vm_compute
def run_cases(ctx, name, header, case_terms, check_fn, shard=300, timeout=600):
    """case_terms: list of Gallina terms (one per case, arguments of check_fn). Returns list of bools
    (True = model and implementation agree).  Compiles shards in parallel."""
    files = []
    for k in range(0, len(case_terms), shard):
        fn = f'{name}_{k // shard}.v'
        with open(os.path.join(ctx.build, fn), 'w') as f:
            f.write(header + '\n')
            f.write('Definition cases := [\n' + ';\n'.join(case_terms[k:k + shard]) + '\n].\n')
            f.write(f'Definition results := map (fun c => {check_fn} c) cases.\n')
            f.write('Eval vm_compute in results.\n')
        files.append(fn)
    procs = []
    maxpar = 12
    results = []
    pending = list(files); running = []
    outs = {}
    while pending or running:
        while pending and len(running) < maxpar:
            fn = pending.pop(0)
            p = subprocess.Popen(['timeout', str(timeout), 'coqc'] + COQ_ARGS + [fn], cwd=ctx.build,
                                 stdout=subprocess.PIPE, stderr=subprocess.STDOUT, text=True)
            running.append((fn, p))
        fn, p = running.pop(0)
        out, _ = p.communicate()
        outs[fn] = (p.returncode, out)
    for fn in files:
        rc, out = outs[fn]
        if rc != 0:
            ctx.broken.append(f'correspondence file {fn} failed to evaluate: {out[-300:]}')
            return None
        body = out[out.index('='):] if '=' in out else out
        body = body.split(': list bool')[0]
        results += [t == 'true' for t in re.findall(r'\b(true|false)\b', body)]
    if len(results) != len(case_terms):
        ctx.broken.append(f'correspondence {name}: expected {len(case_terms)} results, parsed {len(results)}')
        return None
    return results

def all_finite(*xs):
    """True iff every number in the (nested) results is finite: residual tests written as `err > tol` pass silently on NaN"""
    import numpy as np
    return all(bool(np.all(np.isfinite(a))) for x in xs for a in _flat(x))
# ------------------------------------------------------------------ memory-layout independence
def _flat(x):
    import numpy as np, quaternion
    if isinstance(x, (tuple, list)): return [v for y in x for v in _flat(y)]
    if isinstance(x, dict): return []
    if hasattr(x, 'toarray'): x = x.toarray()
    a = np.asarray(x)
    if a.dtype == np.quaternion: a = quaternion.as_float_array(a)
    if a.dtype.kind in 'fciub': return [np.asarray(a, dtype=complex).ravel()]
    return []
def layout_sweep(ctx, qx, pid, name, fn, An, inp, rtol=1e-9):
    """fn(An) must not depend on the memory layout of An (same values in Fortran order, as a transposed view, column-strided,
    row-reversed view): an exception or a different answer is a violation with the layout as replay."""
    import numpy as np
    try: base = _flat(fn(An))
    except Exception: return
    for lname, Al in qx.layouts(An):
        try: got = _flat(fn(Al))
        except Exception as e:
            ctx.violations.append({'sig': f'{pid}:memory-layout:{name}:raises', 'what': f'{name} raised {type(e).__name__} for a {lname} argument with the same values: {e}', 'input': dict(inp, layout=lname), 'observed': repr(e)[:200], 'expected': 'same answer as for the C-contiguous array', 'oracle': 'the same call on the C-contiguous array'}); continue
        ok = len(got) == len(base) and all(g.shape == b.shape and np.allclose(g, b, rtol=rtol, atol=rtol * (1 + float(np.max(np.abs(b))) if b.size else 0.0), equal_nan=True) for g, b in zip(got, base))
        if not ok: ctx.violations.append({'sig': f'{pid}:memory-layout:{name}', 'what': f'{name} gives a different answer for a {lname} argument with the same values', 'input': dict(inp, layout=lname), 'observed': '', 'expected': 'same answer as for the C-contiguous array', 'oracle': 'the same call on the C-contiguous array'})
        ctx.count(('layout', name, lname), True)

# ------------------------------------------------------------------ literals
def zlit(x):
    x = int(x); return f'({x})' if x < 0 else str(x)
def zmat_lit(M):
    return '[' + '; '.join('[' + '; '.join(zlit(v) for v in row) + ']' for row in M) + ']'
def zvec_lit(v):
    return '[' + '; '.join(zlit(x) for x in v) + ']'
def qlit(fr):
    fr = Fraction(fr)
    n = f'({fr.numerator})' if fr.numerator < 0 else str(fr.numerator)
    return f'(Q2Qc ({n} # {fr.denominator}))'
def frac(x):
    """exact value of a Python/NumPy float"""
    return Fraction(float(x))
def is_int_float(x):
    return float(x).is_integer()

# ------------------------------------------------------------------ known findings, replay, evidence, decision
def load_known():
    p = os.path.join(ROOT, 'known_findings.json')
    if not os.path.exists(p): return []
    return json.load(open(p)).get('findings', [])

def write_replay(ctx, obj):
    d = os.path.join(ROOT, 'replays'); os.makedirs(d, exist_ok=True)
    p = os.path.join(d, f'{ctx.pid}_{ctx.tier}_{ctx.seed}_{len(os.listdir(d))}.json')
    obj = dict(obj); obj.setdefault('property', ctx.pid); obj.setdefault('seed', ctx.seed)
    obj.setdefault('tier', ctx.tier)
    obj.setdefault('how_to_replay', f'bin/check {ctx.pid} --replay {p}')
    json.dump(obj, open(p, 'w'), indent=1, default=str)
    return p

def finish(ctx, level, technique_note, assumptions, extra_cov=None):
    """decide, write evidence, print lines, return exit code"""
    rp = getattr(ctx, 'replay_of', None)
    if rp is not None:
        # replay mode: the run was regenerated deterministically from the recorded tier and seed; report whether the
        # recorded failure (same signature, or the same broken obligation kind) is still there.  No evidence is written.
        ctx.cleanup()
        if rp.get('kind') == 'violation':
            same = [v for v in ctx.violations if v.get('sig') == rp.get('sig')]
            if same:
                print(f"REPLAY: reproduced {rp.get('sig')}: {same[0].get('what')} (observed {same[0].get('observed')})")
                print(f"VIOLATION property={ctx.pid} replay={rp.get('_path')}")
                return 1
            print(f"REPLAY: {rp.get('sig')} is not reproduced on the current tree"); return 0
        if ctx.broken:
            print('REPLAY: still broken: ' + '; '.join(ctx.broken)[:600])
            print(f"VIOLATION property={ctx.pid} replay={rp.get('_path')} no-failing-input-found")
            return 1
        print('REPLAY: every obligation and correspondence checks on the current tree'); return 0
    known = [k for k in load_known() if k.get('property') == ctx.pid]
    open_known = [k for k in known if k.get('status') == 'open']
    new_viol = []; hits = {}
    for v in ctx.violations:
        m = None
        for k in open_known:
            if re.fullmatch(k['sig'], v['sig']): m = k; break
        if m is None: new_viol.append(v)
        else: hits.setdefault(m['id'], (m, []))[1].append(v)
    code = 0
    for kid, (k, vs) in sorted(hits.items()):
        print(f"KNOWN-FINDING: property={ctx.pid} {k['what']} [{kid}; {len(vs)} case(s) this run]")
    if new_viol:
        # group by signature, one replay per signature (first = smallest found)
        seen = set()
        for v in new_viol:
            if v['sig'] in seen: continue
            seen.add(v['sig'])
            p = write_replay(ctx, dict(kind='violation', **v))
            if len(seen) <= 5: print(f'VIOLATION property={ctx.pid} replay={p}')
        code = 1
    elif ctx.broken:
        p = write_replay(ctx, dict(kind='broken-obligation', theorem_or_correspondence=ctx.broken,
                                   note='a proof obligation or the model/implementation correspondence no longer checks; '
                                        'the search over the enumerations and random budget found no input on which the property oracle fails'))
        print(f'VIOLATION property={ctx.pid} replay={p} no-failing-input-found')
        code = 1
    nob = len(ctx.obligations); nd = sum(1 for o in ctx.obligations if o[1])
    cov = dict(ctx.cov)
    cov.update({'obligations': max(nob, 1), 'discharged': nd if nob else 0,
                'checker_cmd': 'coqc ' + ' '.join(COQ_ARGS) + f' props/{ctx.pid}.v (full .vo build; library built by MANIFEST.setup_cmd with make)',
                'trusted_base': TRUSTED_BASE + ['axioms per theorem (Print Assumptions): ' +
                                                 '; '.join(f'{k}: {v}' for k, v in sorted(ctx.axioms.items()))],
                'theorems': [o[0] for o in ctx.obligations if o[1]],
                'undischarged': [o[0] for o in ctx.obligations if not o[1]],
                'known_findings_reproduced': sorted(hits.keys()),
                'broken_obligations_or_correspondences': [b[:300] for b in ctx.broken],
                'notes': ctx.notes})
    if extra_cov: cov.update(extra_cov)
    if cov['distinct_nontrivial'] < 2 and not ctx.broken and code == 0:
        ctx.notes.append('fewer than 2 distinct non-trivial cases')
    ev = {'property_id': ctx.pid, 'tier': ctx.tier, 'seed': ctx.seed, 'level': level, 'coverage': cov,
          'assumptions': assumptions, 'wall_s': round(time.time() - ctx.t0, 2),
          'violations': len(new_viol) + (1 if (ctx.broken and not new_viol) else 0)}
    os.makedirs(os.path.join(ROOT, 'evidence'), exist_ok=True)
    json.dump(ev, open(os.path.join(ROOT, 'evidence', f'{ctx.pid}.json'), 'w'), indent=1, default=str)
    ctx.cleanup()
    return code
