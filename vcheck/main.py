import sys, os, argparse, importlib, traceback, json
from . import common as cm

def main():
    import signal
    try: signal.signal(signal.SIGPIPE, signal.SIG_DFL)
    except Exception: pass
    ap = argparse.ArgumentParser()
    ap.add_argument('pid'); ap.add_argument('--tier', default=None); ap.add_argument('--replay', default=None)
    a = ap.parse_args()
    tier = os.environ.get('VERIF_TIER') or a.tier or 'quick'
    if tier not in ('quick', 'thorough'): tier = 'quick'
    seed = int(os.environ.get('VERIF_SEED', '0') or 0)
    mod = importlib.import_module('vcheck.' + a.pid.lower())
    ctx = cm.Ctx(a.pid, tier, seed)
    try:
        if a.replay:
            rp = json.load(open(a.replay)); rp['_path'] = os.path.abspath(a.replay)
            ctx.cleanup()
            ctx = cm.Ctx(a.pid, rp.get('tier') or tier, int(rp.get('seed', seed)))
            ctx.replay_of = rp
            code = mod.run(ctx)
        else:
            code = mod.run(ctx)
    except SystemExit: raise
    except Exception as exc:
        traceback.print_exc()
        ctx.cleanup()
        # an exception that left the implementation (a frame under the checked repository lies below the last harness frame) on an
        # input the harness feeds only because the clean tree answers it: the implementation no longer answers -> a violation with
        # the traceback as the replay; anything else is a defect of the harness and no verdict
        fr = traceback.extract_tb(exc.__traceback__)
        here = os.path.dirname(os.path.abspath(__file__))
        last_h = max([i for i, f in enumerate(fr) if os.path.abspath(f.filename).startswith(here)] or [-1])
        impl = [f for f in fr[last_h + 1:] if os.path.abspath(f.filename).startswith(os.path.abspath(cm.REPO) + os.sep)]
        if impl and not a.replay:
            f = impl[-1]
            p = cm.write_replay(ctx, dict(kind='violation', sig=f'{a.pid}:implementation-raises:{os.path.basename(f.filename)}:{f.name}',
                                          what=f'the implementation raised {type(exc).__name__}: {exc} in {f.name} ({f.filename}:{f.lineno}) on an input the unchanged tree answers',
                                          traceback=traceback.format_exc()[-3000:], tier=tier, seed=seed))
            print(f'VIOLATION property={a.pid} replay={p}')
            code = 1
        elif ctx.violations and not a.replay:
            # the harness itself stopped (typically on an answer of a shape it did not expect) AFTER its oracles had already found failing
            # inputs: those findings stand -- report them (known findings excepted) instead of "no verdict"
            import re as _re
            known = [k for k in cm.load_known() if k.get('property') == a.pid and k.get('status') == 'open']
            new = [v for v in ctx.violations if not any(_re.fullmatch(k['sig'], v['sig']) for k in known)]
            if new:
                seen = set()
                for v in new:
                    if v['sig'] in seen: continue
                    seen.add(v['sig'])
                    p = cm.write_replay(ctx, dict(kind='violation', harness_stopped_after=traceback.format_exc()[-1500:], **v))
                    if len(seen) <= 5: print(f'VIOLATION property={a.pid} replay={p}')
                code = 1
            else:
                print(f'INTERNAL-ERROR in check {a.pid} (not a verdict)')
                code = 2
        else:
            print(f'INTERNAL-ERROR in check {a.pid} (not a verdict)')
            code = 2
    sys.exit(code)
main()
