import sys, os, argparse, importlib, traceback, json
from . import common as cm

def main():
    import signal
    try: signal.signal(signal.SIGPIPE, signal.SIG_DFL)
    except Exception: pass
    ap = argparse.ArgumentParser()
    ap.add_argument('pid'); ap.add_argument('--tier', default=None); ap.add_argument('--replay', default=None)
    a = ap.parse_args()
    tier = os.environ.get('VERIF_TIER') or a.tier or 'quick'
    if tier not in ('quick', 'thorough'): tier = 'quick'
    seed = int(os.environ.get('VERIF_SEED', '0') or 0)
    mod = importlib.import_module('vcheck.' + a.pid.lower())
    ctx = cm.Ctx(a.pid, tier, seed)
    try:
        if a.replay:
            rp = json.load(open(a.replay)); rp['_path'] = os.path.abspath(a.replay)
            ctx.cleanup()
            ctx = cm.Ctx(a.pid, rp.get('tier') or tier, int(rp.get('seed', seed)))
            ctx.replay_of = rp
            code = mod.run(ctx)
        else:
            code = mod.run(ctx)
    except SystemExit: raise
    except Exception:
        traceback.print_exc()
        ctx.cleanup()
        print(f'INTERNAL-ERROR in check {a.pid} (not a verdict)')
        code = 2
    sys.exit(code)
main()
