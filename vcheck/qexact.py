"""Exact quaternion matrix arithmetic (Python ints / Fractions) used by the property oracles,
plus converters to and from numpy-quaternion arrays.  Independent of the implementation."""
from fractions import Fraction
import itertools

class Q:
    __slots__ = ('w', 'x', 'y', 'z')
    def __init__(s, w=0, x=0, y=0, z=0): s.w, s.x, s.y, s.z = w, x, y, z
    def __add__(s, o): return Q(s.w + o.w, s.x + o.x, s.y + o.y, s.z + o.z)
    def __sub__(s, o): return Q(s.w - o.w, s.x - o.x, s.y - o.y, s.z - o.z)
    def __neg__(s): return Q(-s.w, -s.x, -s.y, -s.z)
    def __mul__(s, o):
        if not isinstance(o, Q): return Q(s.w * o, s.x * o, s.y * o, s.z * o)
        return Q(s.w * o.w - s.x * o.x - s.y * o.y - s.z * o.z,
                 s.w * o.x + s.x * o.w + s.y * o.z - s.z * o.y,
                 s.w * o.y - s.x * o.z + s.y * o.w + s.z * o.x,
                 s.w * o.z + s.x * o.y - s.y * o.x + s.z * o.w)
    def __rmul__(s, o): return Q(s.w * o, s.x * o, s.y * o, s.z * o)
    def conj(s): return Q(s.w, -s.x, -s.y, -s.z)
    def n2(s): return s.w * s.w + s.x * s.x + s.y * s.y + s.z * s.z
    def inv(s):
        d = s.n2(); return Q(Fraction(s.w, 1) / d, Fraction(-s.x, 1) / d, Fraction(-s.y, 1) / d, Fraction(-s.z, 1) / d)
    def __eq__(s, o): return (s.w, s.x, s.y, s.z) == (o.w, o.x, o.y, o.z)
    def __hash__(s): return hash((s.w, s.x, s.y, s.z))
    def t(s): return (s.w, s.x, s.y, s.z)
    def is_zero(s): return s.w == 0 and s.x == 0 and s.y == 0 and s.z == 0
    def __repr__(s): return f'Q{ s.t() }'

ZERO = Q(); ONE = Q(1)
UNITS = [Q(1), Q(0, 1), Q(0, 0, 1), Q(0, 0, 0, 1)]

def zeros(m, n): return [[Q() for _ in range(n)] for _ in range(m)]
def eye(n): return [[Q(1) if i == j else Q() for j in range(n)] for i in range(n)]
def shape(A): return (len(A), len(A[0]) if A else 0)
def mm(A, B):
    m, k = shape(A); k2, n = shape(B)
    assert k == k2, (shape(A), shape(B))
    out = zeros(m, n)
    for i in range(m):
        for j in range(n):
            acc = Q()
            for l in range(k): acc = acc + A[i][l] * B[l][j]
            out[i][j] = acc
    return out
def add(A, B): return [[a + b for a, b in zip(r, s)] for r, s in zip(A, B)]
def sub(A, B): return [[a - b for a, b in zip(r, s)] for r, s in zip(A, B)]
def scale(c, A): return [[a * c for a in r] for r in A]
def herm(A):
    m, n = shape(A)
    return [[A[i][j].conj() for i in range(m)] for j in range(n)]
def frob2(A): return sum(a.n2() for r in A for a in r)
def eq(A, B): return shape(A) == shape(B) and all(a == b for r, s in zip(A, B) for a, b in zip(r, s))
def comps(A):
    return tuple([[getattr(a, c) for a in r] for r in A] for c in 'wxyz')
def from_comps(W, X, Y, Z):
    return [[Q(W[i][j], X[i][j], Y[i][j], Z[i][j]) for j in range(len(W[0]))] for i in range(len(W))]
def maxabs(A): return max([max(abs(c) for c in a.t()) for r in A for a in r] or [0])

# ---- numpy bridge (imports numpy lazily so the module also loads without it)
def to_np(A):
    import numpy as np, quaternion
    m, n = shape(A)
    arr = np.zeros((m, n, 4))
    for i in range(m):
        for j in range(n): arr[i, j] = [float(c) for c in A[i][j].t()]
    return quaternion.as_quat_array(arr)
def layouts(An):
    """the same 2-D array in other memory layouts (values identical): Fortran order, transposed view of a C array,
    column-strided and row-reversed views.  Entry points must not depend on the layout of their argument."""
    import numpy as np
    m, n = An.shape
    out = [('fortran', np.asfortranarray(An)), ('transposed-view', np.ascontiguousarray(An.T).T)]
    big = np.zeros((m, 2 * n), dtype=An.dtype); big[:, ::2] = An; out.append(('column-strided', big[:, ::2]))
    rev = np.ascontiguousarray(An[::-1]); out.append(('row-reversed-view', rev[::-1]))
    return out
def from_np(Aq, exact=True):
    """numpy quaternion array (1-D or 2-D) -> exact matrix (Fractions of the float values)"""
    import numpy as np, quaternion
    f = quaternion.as_float_array(np.asarray(Aq))
    if f.ndim == 2: f = f[:, None, :]
    return [[Q(*[Fraction(float(v)) for v in f[i, j]]) for j in range(f.shape[1])] for i in range(f.shape[0])]
def to_int(A):
    """exact matrix with integral Fractions -> ints, or None"""
    out = []
    for r in A:
        row = []
        for a in r:
            t = a.t()
            if any(Fraction(c).denominator != 1 for c in t): return None
            row.append(Q(*[int(c) for c in t]))
        out.append(row)
    return out
def real_from_np(M):
    import numpy as np
    M = np.asarray(M, dtype=float)
    if M.ndim == 1: M = M[:, None]
    return [[Fraction(float(v)) for v in r] for r in M]

def rand_int(rng, m, n, lo=-3, hi=3, density=1.0):
    return [[Q(*[rng.randint(lo, hi) if rng.random() < density else 0 for _ in range(4)]) for _ in range(n)] for _ in range(m)]
def signed_perm(rng, n):
    """exactly unitary integer matrix: permutation with unit-quaternion entries"""
    p = list(range(n)); rng.shuffle(p)
    U = zeros(n, n)
    for i in range(n):
        u = UNITS[rng.randrange(4)]
        U[i][p[i]] = u if rng.random() < 0.5 else -u
    return U
def householder_unitary(rng, n, lo=-2, hi=2):
    """exactly unitary rational matrix I - 2 v v^H / (v^H v)"""
    while True:
        v = [Q(*[rng.randint(lo, hi) for _ in range(4)]) for _ in range(n)]
        d = sum(a.n2() for a in v)
        if d: break
    U = eye(n)
    for i in range(n):
        for j in range(n):
            U[i][j] = U[i][j] - (v[i] * v[j].conj()) * Fraction(2, d)
    return U
def rand_unitary(rng, n, k=2):
    U = signed_perm(rng, n)
    for _ in range(k): U = mm(U, householder_unitary(rng, n))
    return U
